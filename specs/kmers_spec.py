"""Independent reference definitions for k-mer coding, written from the property text (C01, C06, C07).

Base-4 positional code, A=0 C=1 G=2 T=3, first nucleotide most significant, case ignored; every other byte is
invalid.  Reverse complement: reverse and swap A<->T, C<->G preserving case; other bytes unchanged.
All functions work on z3 8-bit terms or Python ints (mixed)."""
import z3

NUC = b'ACGT'
COMP = {ord('A'): ord('T'), ord('T'): ord('A'), ord('C'): ord('G'), ord('G'): ord('C'),
        ord('a'): ord('t'), ord('t'): ord('a'), ord('c'): ord('g'), ord('g'): ord('c')}


def _t(b):
    return b if isinstance(b, z3.ExprRef) else z3.BitVecVal(b, 8)


def fold(b):
    """ASCII upper-casing of letters."""
    b = _t(b)
    return z3.If(z3.And(z3.UGE(b, 97), z3.ULE(b, 122)), b - 32, b)


def is_nuc(b):
    f = fold(b)
    return z3.Or(*[f == c for c in NUC])


def digit(b):
    """2-bit digit of a valid nucleotide byte (arbitrary for invalid ones)."""
    f = fold(b)
    return z3.If(f == ord('A'), z3.BitVecVal(0, 2), z3.If(f == ord('C'), z3.BitVecVal(1, 2),
                 z3.If(f == ord('G'), z3.BitVecVal(2, 2), z3.BitVecVal(3, 2))))


def valid_kmer(cells):
    return z3.And(*[is_nuc(c) for c in cells]) if cells else z3.BoolVal(True)


def kmer_index(cells, width=64):
    """Index as a `width`-bit term: the digits concatenated (no arithmetic, hence no wrap-around)."""
    k = len(cells)
    assert 2 * k <= width
    if k == 0:
        return z3.BitVecVal(0, width)
    ds = [digit(c) for c in cells]
    cat = z3.Concat(*ds) if k > 1 else ds[0]
    return z3.ZeroExt(width - 2 * k, cat) if width > 2 * k else cat


def comp(b):
    b = _t(b)
    r = b
    for x, y in COMP.items():
        r = z3.If(b == x, z3.BitVecVal(y, 8), r)
    return r


def revcomp(cells):
    return [comp(c) for c in reversed(cells)]


def index_digit_char(index, k, j, width=64):
    """Byte j (0-based, from the left) of the k-mer with the given index."""
    sh = 2 * (k - 1 - j)
    d = z3.Extract(sh + 1, sh, index)
    return z3.If(d == 0, z3.BitVecVal(ord('A'), 8), z3.If(d == 1, z3.BitVecVal(ord('C'), 8),
                 z3.If(d == 2, z3.BitVecVal(ord('G'), 8), z3.BitVecVal(ord('T'), 8))))


# ---- concrete versions (used for replay and translator validation)

def py_kmer_index(b: bytes):
    v = 0
    for c in b.upper():
        if c not in NUC:
            return None
        v = v * 4 + NUC.index(c)
    return v


def py_revcomp(b: bytes):
    return bytes(COMP.get(c, c) for c in reversed(b))


def py_index_to_kmer(i: int, k: int):
    return bytes(NUC[(i >> (2 * (k - 1 - j))) & 3] for j in range(k))


# ---- signature spec (C01 / C06)

def occurrences(cells, k, prefix):
    """All (condition, index term) pairs of the property text: on the case-folded forward strand and on its reverse
    complement, at every position q with q + |prefix| + k <= n: the prefix occurs at q, the k following bytes are
    ACGT, and the value is their base-4 index."""
    n, p = len(cells), len(prefix)
    fw = [fold(c) for c in cells]
    rc = revcomp(fw)
    out = []
    for strand_name, x in (('+', fw), ('-', rc)):
        for q in range(0, n - p - k + 1):
            pre = [x[q + t] == prefix[t] for t in range(p)]
            kmer = x[q + p: q + p + k]
            cond = z3.And(*pre, valid_kmer(kmer))
            out.append((cond, kmer_index(kmer), strand_name, q))
    return out


def index_dtype_str(k):
    return 'u1' if k <= 4 else 'u2' if k <= 8 else 'u4' if k <= 16 else 'u8'


def py_signature(k, prefix: bytes, seqs):
    """Concrete reference signature (sorted list of ints)."""
    out = set()
    p = len(prefix)
    for s in seqs:
        f = bytes(s).upper()
        for x in (f, py_revcomp(f)):
            for q in range(0, len(x) - p - k + 1):
                if x[q:q + p] == prefix:
                    v = py_kmer_index(x[q + p:q + p + k])
                    if v is not None:
                        out.add(v)
    return sorted(out)
