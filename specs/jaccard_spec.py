"""Independent reference definitions for the Jaccard distance (C02, C05, C15), from the property text:
d(A,B) = |A xor B| / |A or B| rounded once to float32; d(empty, empty) = 0; index = 1 - d."""
import z3
import numpy as np
from fractions import Fraction

RNE = z3.RNE()
F32 = z3.Float32()


def zext64(t):
    return z3.ZeroExt(64 - t.size(), t) if t.size() < 64 else t


def match_count(a_cells, la, b_cells, lb, width=64):
    """#{(i,j): i < la, j < lb, a_i == b_j} as a `width`-bit term.  la/lb: 32-bit length terms."""
    total = z3.BitVecVal(0, width)
    for i, a in enumerate(a_cells):
        for j, b in enumerate(b_cells):
            hit = z3.And(z3.BitVecVal(i, 32) < la, z3.BitVecVal(j, 32) < lb, zext64(a) == zext64(b))
            total = total + z3.If(hit, z3.BitVecVal(1, width), z3.BitVecVal(0, width))
    return total


def sets_equal(a_cells, la, b_cells, lb):
    conds = [la == lb]
    for i in range(min(len(a_cells), len(b_cells))):
        conds.append(z3.Implies(z3.BitVecVal(i, 32) < la, zext64(a_cells[i]) == zext64(b_cells[i])))
    if len(a_cells) != len(b_cells):
        conds.append(la <= min(len(a_cells), len(b_cells)))
    return z3.And(*conds)


def dist_fp(N, M, u):
    """Spec distance over 64-bit signed integer terms with u>0, all below 2^24: both operands convert exactly, and
    IEEE division of exact operands is by definition the exact quotient rounded once."""
    num = 2 * u - N - M
    return z3.If(u == 0, z3.FPVal(0.0, F32), z3.fpDiv(RNE, z3.fpSignedToFP(RNE, num, F32), z3.fpSignedToFP(RNE, u, F32)))


def py_dist(a, b):
    """Concrete reference: exact rational rounded once to float32."""
    A, B = set(int(x) for x in a), set(int(x) for x in b)
    u = len(A | B)
    if u == 0:
        return np.float32(0)
    q = Fraction(len(A ^ B), u)
    return round_fraction_f32(q)


def round_fraction_f32(q):
    """Correctly rounded (RNE) float32 of a non-negative Fraction in [0, 1]."""
    if q == 0:
        return np.float32(0)
    # find exponent e with 2^e <= q < 2^(e+1)
    e = 0
    while Fraction(2) ** e > q:
        e -= 1
    while Fraction(2) ** (e + 1) <= q:
        e += 1
    scale = Fraction(2) ** (23 - e)
    x = q * scale           # in [2^23, 2^24)
    fl = x.numerator // x.denominator
    rem = x - fl
    if rem > Fraction(1, 2) or (rem == Fraction(1, 2) and fl % 2 == 1):
        fl += 1
    return np.float32(float(Fraction(fl) / scale))
