"""Shared driver machinery: obligation pool, verdicts, evidence, known findings, exit codes."""
import os
import sys
import json
import time
import hashlib
import importlib
import traceback
import multiprocessing as mp
from concurrent.futures import ProcessPoolExecutor, as_completed

VERIF = os.path.dirname(os.path.dirname(os.path.abspath(__file__)))
REPO = os.environ.get('VERIF_REPO', '/repo')
SEED = int(os.environ.get('VERIF_SEED', '0') or 0)
NCPU = min(16, os.cpu_count() or 1)

HOLDS, VIOLATED, INCONCLUSIVE = 'holds', 'violated', 'inconclusive'


def _worker(spec):
    modname, fname, params = spec
    t0 = time.time()
    try:
        mod = importlib.import_module(modname)
        res = getattr(mod, fname)(**params)
    except BaseException as e:   # noqa - report as inconclusive, never as pass
        res = {'status': INCONCLUSIVE, 'error': f'{type(e).__name__}: {e}', 'trace': traceback.format_exc()[-1500:]}
    res.setdefault('name', f'{fname}({params})')
    res['wall_s'] = round(time.time() - t0, 3)
    res['spec'] = [modname, fname, params]
    return res


def run_pool(specs, workers=NCPU, budget_s=None, label=''):
    """Run obligation specs [(module, function, params)] in parallel.  Returns results in spec order.
    Specs not finished within budget_s are reported inconclusive ('not reached')."""
    results = [None] * len(specs)
    if not specs:
        return results
    t0 = time.time()
    ctx = mp.get_context('fork')
    ex = ProcessPoolExecutor(max_workers=min(workers, len(specs)), mp_context=ctx)
    futs = {ex.submit(_worker, s): i for i, s in enumerate(specs)}
    try:
        remaining = None if budget_s is None else max(1.0, budget_s)
        for fut in as_completed(futs, timeout=remaining):
            i = futs[fut]
            try:
                results[i] = fut.result()
            except BaseException as e:  # noqa
                results[i] = {'status': INCONCLUSIVE, 'error': f'worker died: {type(e).__name__}: {e}', 'name': str(specs[i]), 'spec': list(specs[i])}
    except TimeoutError:
        pass
    finally:
        for fut, i in futs.items():
            if results[i] is None:
                fut.cancel()
                results[i] = {'status': INCONCLUSIVE, 'error': f'not reached within the {budget_s}s budget', 'name': str(specs[i]),
                              'spec': list(specs[i]), 'not_reached': True}
        procs = list((getattr(ex, '_processes', None) or {}).values())
        ex.shutdown(wait=False, cancel_futures=True)
        # kill stragglers
        for p in procs:
            try:
                p.kill()
            except Exception:
                pass
    return results


# ------------------------------------------------------------------------------------------ known findings

def load_known():
    p = os.path.join(VERIF, 'known_findings.json')
    if not os.path.exists(p):
        return []
    return json.load(open(p))


def known_open(pid, key):
    for e in load_known():
        if e.get('property') == pid and e.get('status') == 'open' and e.get('key') == key:
            return e
    return None


# ------------------------------------------------------------------------------------------ run context

def file_sha(path):
    return hashlib.sha256(open(path, 'rb').read()).hexdigest()[:16]


class Run:
    def __init__(self, pid, tier, level='model_checking'):
        self.pid, self.tier, self.level = pid, tier, level
        self.t0 = time.time()
        self.obligations = []       # result dicts
        self.violations = []        # (key, what, replay_path)
        self.known = []
        self.inconclusive = []
        self.samples = []
        self.assumptions = []
        self.extra = {}
        self.functions = {}
        self.bounds = {}
        self.outside = []
        self.stubs = []
        self.rungs = []
        os.makedirs(os.path.join(VERIF, 'evidence'), exist_ok=True)
        os.makedirs(os.path.join(VERIF, 'replays'), exist_ok=True)

    def log(self, *a):
        print(f'[{self.pid} {time.time() - self.t0:6.1f}s]', *a, flush=True)

    def add_results(self, results, rung=None):
        for r in results:
            r['rung'] = rung
            self.obligations.append(r)
            if r['status'] == INCONCLUSIVE:
                self.inconclusive.append(r)
            for k, v in (r.get('encoded') or {}).items():
                self.functions[k] = v
            if r.get('sample') is not None and len(self.samples) < 12:
                self.samples.append({'obligation': r['name'], 'case': r['sample']})

    def write_replay(self, cex, tag=''):
        blob = json.dumps(cex, sort_keys=True, default=str)
        dig = hashlib.sha256(blob.encode()).hexdigest()[:12]
        path = os.path.join(VERIF, 'replays', f'{self.pid}-{tag}{dig}.json')
        with open(path, 'w') as f:
            json.dump(cex, f, indent=1, sort_keys=True, default=str)
        return path

    def report_violation(self, key, what, cex):
        """A *reproduced* violation.  Known open findings are printed as KNOWN-FINDING and do not fail the run."""
        cex = dict(cex)
        cex.update({'property': self.pid, 'key': key, 'what': what})
        path = self.write_replay(cex)
        k = known_open(self.pid, key)
        if k is not None:
            if key not in [x[0] for x in self.known]:
                print(f'KNOWN-FINDING: property={self.pid} {k.get("what", what)}', flush=True)
            self.known.append((key, what, path))
        else:
            if key not in [x[0] for x in self.violations]:
                print(f'VIOLATION property={self.pid} replay={path}', flush=True)
                print(f'  {what}', flush=True)
            self.violations.append((key, what, path))

    def finish(self, rule, explanation, exhaustive=False):
        wall = time.time() - self.t0
        n = len(self.obligations)
        discharged = sum(1 for r in self.obligations if r['status'] == HOLDS)
        nontrivial = sum(1 for r in self.obligations if r['status'] == HOLDS and r.get('reach') == 'sat')
        queries = sum(len(r.get('queries', [])) for r in self.obligations)
        solver_time = round(sum(q.get('time_s', 0) for r in self.obligations for q in r.get('queries', [])), 2)
        cov = {
            'evaluations': max(queries, n),
            'distinct_nontrivial': nontrivial,
            'rule': rule,
            'samples': self.samples[:12] or [{'note': 'no sample recorded'}],
            'obligations': n,
            'discharged': discharged,
            'inconclusive': len(self.inconclusive),
            'queries': queries,
            'solver_time_s': solver_time,
            'checker_cmd': f'./vcheck {self.pid} --tier {self.tier}',
            'trusted_base': ['z3 5.1 (primary)', 'cvc5 1.4 / z3 4.8.12 (cross-check)', 'engine K translator + library models (kbmc/)', 'CrossHair 0.0.110 (engine X)'],
            'explanation': explanation,
            'exhaustive': exhaustive,
            'functions_encoded': self.functions,
            'bounds': self.bounds,
            'outside_the_claim': self.outside,
            'stubs': self.stubs,
            'rungs': self.rungs,
            'obligation_results': [
                {k: v for k, v in r.items() if k in ('name', 'status', 'reach', 'wall_s', 'rung', 'error', 'second', 'queries', 'bounds')}
                for r in self.obligations][:400],
            'known_findings_reported': [k[0] for k in self.known],
        }
        cov.update(self.extra)
        ev = {
            'property_id': self.pid, 'tier': self.tier, 'seed': SEED, 'level': self.level,
            'coverage': cov, 'assumptions': self.assumptions, 'wall_s': round(wall, 2),
            'violations': len(self.violations),
        }
        path = os.path.join(os.environ.get('VERIF_EVIDENCE_DIR') or os.path.join(VERIF, 'evidence'), f'{self.pid}.json')
        os.makedirs(os.path.dirname(path), exist_ok=True)
        with open(path, 'w') as f:
            json.dump(ev, f, indent=1, default=str)
        if self.violations:
            self.log(f'{len(self.violations)} violation(s)')
            return 1
        if self.inconclusive:
            bad = [r for r in self.inconclusive if not r.get('optional')]
            for r in bad[:10]:
                self.log('INCONCLUSIVE', r.get('name'), r.get('error', ''))
                if r.get('trace'):
                    print(r['trace'], flush=True)
            if bad:
                print(f'HARNESS-ERROR property={self.pid} inconclusive={len(bad)}', flush=True)
                return 2
        self.log(f'held: {discharged}/{n} obligations discharged, {queries} queries, solver {solver_time}s, wall {wall:.1f}s')
        return 0
