"""`vcheck selftest [--tier quick]`: sensitivity run.  Every seeded change under /verif/seeded/<id>/patch.diff is applied to a scratch
copy of the repository sources (never to /repo), the property's check is run against that copy (VERIF_REPO) with its evidence
redirected to the scratch directory, and must exit 1 with a VIOLATION line.  Scratch copies are removed afterwards."""
import os
import sys
import json
import shutil
import subprocess
import tempfile

VERIF = os.path.dirname(os.path.dirname(os.path.abspath(__file__)))
REPO = os.environ.get('VERIF_REPO', '/repo')


def run(tier='quick', only=None):
    entries = []
    for base in ('seeded', 'seeded_pyx'):
        root = os.path.join(VERIF, base)
        if not os.path.isdir(root):
            continue
        for d in sorted(os.listdir(root)):
            if not os.path.exists(os.path.join(root, d, 'patch.diff')):
                continue
            meta = json.load(open(os.path.join(root, d, 'meta.json'))) if os.path.exists(os.path.join(root, d, 'meta.json')) else {}
            for pid in meta.get('properties') or [meta.get('property', d.split('-')[0])]:
                entries.append((f'{d}@{pid}' if meta.get('properties') else d, d, pid, os.path.join(root, d, 'patch.diff')))
    if only:
        by_name = [e for e in entries if e[0] in only or e[1] in only]
        # a seed directory name wins over a property id (the first-round directories are named like their property); 'prop:C01' selects by property
        props_ = [o[5:] for o in only if o.startswith('prop:')]
        entries = [e for e in entries if e[2] in props_] if props_ else (by_name or [e for e in entries if e[2] in only])
    seeds = [e[0] for e in entries]
    bad = []
    for sid, dname, pid, patch in entries:
        scratch = tempfile.mkdtemp(prefix=f'verif_selftest_{dname}_', dir=os.environ.get('VERIF_SCRATCH', '/tmp'))
        try:
            shutil.copytree(os.path.join(REPO, 'src'), os.path.join(scratch, 'src'))
            os.makedirs(os.path.join(scratch, 'tests'))
            shutil.copytree(os.path.join(REPO, 'tests', 'data'), os.path.join(scratch, 'tests', 'data'))
            p = subprocess.run(['patch', '-p1', '-s', '-i', patch], cwd=scratch, capture_output=True, text=True)
            if p.returncode != 0:
                print(f'{sid}: patch does not apply ({p.stdout.strip()[:200]})', flush=True)
                bad.append(sid)
                continue
            env = dict(os.environ, VERIF_REPO=scratch, VERIF_EVIDENCE_DIR=os.path.join(scratch, 'evidence'))
            r = subprocess.run([os.path.join(VERIF, 'vcheck'), pid, '--tier', tier], env=env, capture_output=True, text=True)
            logdir = os.environ.get('VERIF_SELFTEST_LOGDIR', '/tmp')
            try:
                with open(os.path.join(logdir, f'selftest_{sid}.log'), 'w') as f:
                    f.write(r.stdout + r.stderr)
            except OSError:
                pass
            caught = r.returncode == 1 and 'VIOLATION property=' in r.stdout
            line = [l for l in r.stdout.splitlines() if l.startswith('VIOLATION')][:1]
            print(f'{sid}: check {pid} exit={r.returncode} {"CAUGHT" if caught else "NOT CAUGHT"} {line[0] if line else ""}', flush=True)
            if not caught:
                bad.append(sid)
        finally:
            shutil.rmtree(scratch, ignore_errors=True)
    print(f'selftest: {len(seeds) - len(bad)}/{len(seeds)} seeded changes caught' + (f'; missed: {bad}' if bad else ''), flush=True)
    return 1 if bad else 0
