"""Shared driver for engine-X (CrossHair) properties."""
import os
from vlib.common import Run, HOLDS, VIOLATED, INCONCLUSIVE, file_sha, REPO
from xh import runner


def run_jobs(run, jobs, key_of=None, rung=None, workers=16):
    """Run CrossHair jobs, replay counterexamples concretely, feed the Run."""
    results = runner.run_many(jobs, workers=workers)
    for j, r in zip(jobs, results):
        r['rung'] = rung
        r.pop('raw', None) if r['status'] == HOLDS else None
        if r['status'] == VIOLATED:
            call = r.get('call')
            if not call:
                r['status'] = INCONCLUSIVE
                r['error'] = f'counterexample without a replayable call: {r.get("message")}'
            else:
                rep, detail = runner.replay_call(j['path'], call, j.get('params'))
                rec = {'obligation': r['name'], 'harness': j['path'], 'call': call, 'params': j.get('params'), 'replay': detail,
                       'crosshair_message': r.get('message')}
                if rep:
                    key = key_of(j, r, detail) if key_of else f'{os.path.basename(j["path"])}/{j["fname"]}'
                    run.report_violation(key, f'{r["name"]}: {call} -> {detail.get("explain") or detail.get("exception") or detail.get("returned")}', rec)
                else:
                    r['status'] = INCONCLUSIVE
                    r['error'] = f'counterexample did not reproduce concretely: {rec}'
        run.obligations.append(r)
        if r['status'] == INCONCLUSIVE:
            run.inconclusive.append(r)
        if r.get('sample') and len(run.samples) < 12:
            run.samples.append({'obligation': r['name'], 'case': r['sample']})
    return results


def note_sources(run, relpaths):
    for p in relpaths:
        fp = os.path.join(REPO, p)
        if os.path.exists(fp):
            run.functions[p] = file_sha(fp)
