"""Shared driver for engine-X (CrossHair) properties."""
import os
from vlib.common import Run, HOLDS, VIOLATED, INCONCLUSIVE, file_sha, REPO
from xh import runner


def run_jobs(run, jobs, key_of=None, rung=None, workers=16):
    """Run CrossHair jobs, replay counterexamples concretely, feed the Run."""
    results = runner.run_many(jobs, workers=workers)
    for j, r in zip(jobs, results):
        r['rung'] = rung
        r.pop('raw', None) if r['status'] == HOLDS else None
        if r['status'] == VIOLATED:
            call = r.get('call')
            if not call:
                r['status'] = INCONCLUSIVE
                r['error'] = f'counterexample without a replayable call: {r.get("message")}'
            else:
                rep, detail = runner.replay_call(j['path'], call, j.get('params'))
                rec = {'obligation': r['name'], 'harness': j['path'], 'call': call, 'params': j.get('params'), 'replay': detail,
                       'crosshair_message': r.get('message')}
                if rep and stub_gap(detail):
                    # the code under test used a part of a library API that the harness's stand-in objects do not offer:
                    # that is a limitation of the harness, not evidence against the code -> not decided
                    r['status'] = INCONCLUSIVE
                    r['error'] = f'harness stub incomplete (not a verdict on the code): {detail.get("exception") or detail.get("explain")}'
                elif rep:
                    key = key_of(j, r, detail) if key_of else f'{os.path.basename(j["path"])}/{j["fname"]}'
                    run.report_violation(key, f'{r["name"]}: {call} -> {detail.get("explain") or detail.get("exception") or detail.get("returned")}', rec)
                else:
                    r['status'] = INCONCLUSIVE
                    r['error'] = f'counterexample did not reproduce concretely: {rec}'
        run.obligations.append(r)
        if r['status'] == INCONCLUSIVE:
            run.inconclusive.append(r)
        if r.get('sample') and len(run.samples) < 12:
            run.samples.append({'obligation': r['name'], 'case': r['sample']})
    return results


_STUB_MARKERS = ("'NpStub'", "'Arr'", "'FakeFuture'", "'FakeExecutor'", "'FakeSigs'", "'FakeSig'", "'FakeDB'", "'FakeCtxObj'", "'CStub'", "'Exporter'",
                 "'types.SimpleNamespace'", "SimpleNamespace' object has no attribute", "'list' object has no attribute", "'tuple' object has no attribute",
                 "'int' object has no attribute")


def stub_gap(detail):
    """Did the replay fail only because a stand-in object of the harness lacks an attribute / method the code called?"""
    texts = [str(detail.get('exception') or '')]
    ex = detail.get('explain')
    if isinstance(ex, dict):
        texts.append(str(ex.get('why') or ''))
        obs = ex.get('observed')
        if isinstance(obs, dict):
            texts.append(str(obs.get('msg') or ''))
    elif ex:
        texts.append(str(ex))
    for t in texts:
        if 'AttributeError' in t and any(m in t for m in _STUB_MARKERS):
            return True
        # the harness's never-opened stand-in files (paths under /nonexistent/): code that stats or opens them outside the stubbed worker
        # (a correct rewrite may do so) cannot be judged by a condition that hands it such files -> not decided for that condition
        if 'FileNotFoundError' in t and '/nonexistent/' in t:
            return True
    return False


def note_sources(run, relpaths):
    for p in relpaths:
        fp = os.path.join(REPO, p)
        if os.path.exists(fp):
            run.functions[p] = file_sha(fp)
