"""`vcheck replay <file>`: re-executes a recorded counterexample against the real code.
Exit 1 (and a VIOLATION line) if it reproduces, 0 if it does not."""
import json
import importlib
import sys


def run(path):
    d = json.load(open(path))
    pid = d.get('property')
    rep, detail = False, {'error': 'record not understood'}
    if d.get('harness') and d.get('call'):
        from xh import runner
        rep, detail = runner.replay_call(d['harness'], d['call'], d.get('params'))
    elif pid == 'C09' and d.get('platform_replay'):
        from props import C09
        r = C09.platform_replay((d.get('contract_level_counterexample') or {}).get('explain', {}).get('dists'))
        rep, detail = bool(r), r
    elif pid == 'C14' and d.get('real_cli_replay'):
        from props import C14
        r = C14.real_cli_replay()
        rep, detail = bool(r and 'error' not in r), r
    elif d.get('inputs') is not None:
        mod = importlib.import_module(f'props.{pid}')
        inputs, name = d['inputs'], d.get('obligation', '')
        if pid == 'C07':
            rep, detail = mod.replay_cex(name, inputs)
        elif pid == 'C02':
            if 'a' in inputs:
                rep, detail = mod.replay_arrays(inputs, unwind=str(d.get('cex_kind', '')).startswith('unwind'))
            else:
                rep, detail = mod.replay_sizes(inputs, (d.get('spec') or [0, 0, {}])[2].get('fname', 'jaccarddist'))
        elif pid == 'C15':
            rep, detail = mod.replay(name, inputs)
        elif pid in ('C01', 'C06', 'C20'):
            rep, detail = mod.replay(inputs)
        elif pid == 'C05':
            rep, detail = mod.replay_parallel(inputs)
        elif pid == 'C08':
            rep, detail = mod.replay_label(inputs)
    print(json.dumps({'property': pid, 'reproduces': bool(rep), 'detail': detail}, indent=1, default=str))
    if rep:
        print(f'VIOLATION property={pid} replay={path}')
        return 1
    return 0
