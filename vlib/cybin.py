"""Is the compiled Cython extension in /repo in sync with the .pyx text?  (Cython is not installed, so a .pyx edit
never reaches the binary.)  The generated .c embeds every source line it was generated from."""
import os
import re

REPO = os.environ.get('VERIF_REPO', '/repo')


def in_sync(name):
    d = os.path.join(REPO, 'src/gambit/_cython')
    cpath, ppath = os.path.join(d, name + '.c'), os.path.join(d, name + '.pyx')
    if not os.path.exists(cpath):
        return False, 'no generated .c'
    pyx = open(ppath).read().split('\n')
    ctext = open(cpath, errors='replace').read()
    pat = re.compile(r'/\* "gambit/_cython/' + re.escape(name) + r'\.pyx":(\d+)\n((?: \*[^\n]*\n)+?)\*/')
    n = 0
    for m in pat.finditer(ctext):
        ln = int(m.group(1))
        marked = [l for l in m.group(2).split('\n') if l.endswith('# <<<<<<<<<<<<<<')]
        if not marked:
            continue
        src = marked[0][3:].replace('# <<<<<<<<<<<<<<', '').rstrip()
        cur = pyx[ln - 1].rstrip() if ln - 1 < len(pyx) else None
        n += 1
        if cur is None or cur.strip() != src.strip():
            return False, f'line {ln}: binary built from {src.strip()!r}, source now {cur!r}'
    if n == 0:
        return False, 'no embedded source lines found'
    # every non-blank code line of the pyx that is a statement inside a function should be covered; cheap proxy: count
    return True, f'{n} embedded source lines match'
