"""vcheck driver: dispatches to props/<id>.py"""
import sys, os, importlib, argparse, traceback

def main():
    ap = argparse.ArgumentParser()
    ap.add_argument('what')
    ap.add_argument('arg', nargs='?')
    ap.add_argument('--tier', default=os.environ.get('VERIF_TIER', 'quick'), choices=['quick', 'thorough'])
    a = ap.parse_args()
    if a.what == 'replay':
        from vlib import replay
        sys.exit(replay.run(a.arg))
    if a.what == 'selftest':
        from vlib import selftest
        sys.exit(selftest.run(a.tier, [a.arg] if a.arg else None))
    pid = a.what.upper()
    try:
        mod = importlib.import_module(f'props.{pid}')
    except ModuleNotFoundError as e:
        print(f'no check for {pid}: {e}', file=sys.stderr)
        sys.exit(2)
    try:
        rc = mod.main(a.tier)
    except SystemExit:
        raise
    except BaseException:
        traceback.print_exc()
        print(f'HARNESS-ERROR property={pid}')
        rc = 2
    sys.exit(rc)

if __name__ == '__main__':
    main()
