#!/usr/bin/env python3
"""Generates /verif/MANIFEST.json from the table below (kept in one place so the manifest is always valid)."""
import json, os
HERE = os.path.dirname(os.path.dirname(os.path.abspath(__file__)))

CHECKS = {
 'C01': dict(engine='K', technique='bounded model checking: find_kmers/KmerMatch/accumulate_kmers/accumulators/calc_signature + kmers.pyx translated to one SMT formula per (k, prefix, lengths, input type, accumulator); every byte symbolic',
             text='For every (k, prefix) of a small grid and every sequence (or pair of sequences) up to the length bound over all 256 byte values, the set the '
                  'current code accumulates equals the set defined by the property text (soundness + completeness), the result is sorted, duplicate-free and of the '
                  'right dtype, and no exception escapes; for all four input types and both accumulators.  Counterexamples are replayed on the real code.',
             note='Trusted: z3/cvc5, kbmc translator + library models (bytes.find/upper/slicing, numpy set-as-array abstraction), specs/kmers_spec.py; kernel for every k<=32 is C07.',
             ref='3/C01'),
 'C03': dict(engine='X', technique='symbolic execution (CrossHair/z3) of the real classify/matching_taxon/next_taxon/reportable_taxon/get_result_item on real model objects; one condition per forest shape; numpy.argmin as contract stub',
             text='For every taxonomy forest within the bound (shapes enumerated up to isomorphism), every presence/absence and order type of thresholds, every '
                  'report-flag pattern, every distance order type (ties with thresholds included) and every placement of genomes, CrossHair confirms over all paths '
                  'that the real result equals a transcription of the property text; counterexamples are replayed in a plain interpreter.',
             note='Trusted: CrossHair path exhaustion, the order-type abstraction of float values (code only compares them), the argmin contract stub, the oracle in xh/t_c03.py.tmpl.',
             ref='3/C03'),
 'C08': dict(engine='KX', technique='SMT (QF_BV) on the translated strip_seq_file_ext/strip_extensions for symbolic file names; CrossHair/z3-driven exhaustive case split of the real query callback / get_sequence_files / query_parse / query with recording stubs',
             text='K: for every stem up to the length bound over all characters, every FASTA extension and optional .gz, the label is the stem.  X: for every batch (0..3 inputs with repeats, every order) '
                  'and every input channel, there is exactly one result item per input, in order, labelled from the listed name (stored ID for signature files), whose signature was computed from that '
                  'input\'s resolved path and whose classification received that input\'s distance row only.',
             note='Trusted: z3/cvc5, kbmc string model (endswith, slicing, concatenation); CrossHair path exhaustion; the recording stubs.  Cores, progress display, gzip equivalence and real parsing are outside.',
             ref='3/C08'),
 'C09': dict(engine='X', technique='symbolic execution (CrossHair/z3) of the real get_result_item/classify with numpy.argsort replaced by its documented contract (unstable kinds: any sorting permutation, chosen symbolically; stable kinds: the stable order) + replay on the real numpy',
             text='For 1..4 (quick) / 5 (thorough) references, every distance order type with ties, every tie order an unstable sort may return and every list length, CrossHair '
                  'confirms that the list is the (distance, reference order) prefix with exact distances and per-distance taxa and that its head is closest_match.  A contract-level '
                  'counterexample is reported only with an input that fails on the real numpy of this machine.',
             note='Trusted: CrossHair path exhaustion, the numpy contract stubs (argsort stability as documented, argmin first minimum).  CPU-dispatch / thread-count independence follows from the stable order and is not executed.',
             ref='3/C09'),
 'C10': dict(engine='X', technique='symbolic execution (CrossHair/z3) of the real consensus_taxon / find_matches / classify(strict=True): the solver enumerates every sequence of matched taxa / genome placement / distance class per forest shape, oracle is order-free',
             text='For every forest within the bound, every sequence (any order, repeats) of matched taxa gives the order-free consensus of the property text; strict classify on every '
                  'genome placement and distance class gives that consensus, the right failure flag, warning and primary match; find_matches is confirmed with symbolic thresholds.',
             note='Trusted: CrossHair path exhaustion; concrete threshold patterns in the strict harness (matching with symbolic thresholds is decided separately); argmin contract stub.',
             ref='3/C10'),
 'C11': dict(engine='X', technique='CrossHair/z3-driven exhaustive case split over result-set shapes (optional parts present/absent) and pools of awkward text / float32 values; each cell runs the real CSV, JSON and archive exporters and reads the output back',
             text='For every combination within the pools, the CSV has the documented header and one row per query whose cells equal the reported taxon / closest match / next taxon (empty when absent) '
                  'and parses back; the JSON parses and carries the same label, taxa and closest-genome data; the archive read back against the same database equals the original including distances to the last bit.',
             note='Bounded-exhaustive over finite pools (not all strings / floats).  Trusted: CrossHair path exhaustion; the stdlib csv/json readers used for parsing back.',
             ref='3/C11'),
 'C13': dict(engine='X', technique='symbolic execution (CrossHair/z3) of the real calc_file_signatures with as_completed modelled as an arbitrary (symbolic) permutation and stub executors',
             text='For 1..4 (quick) / 5 (thorough) files, every completion permutation, every position of a failing file, every concurrency mode and executor ownership, '
                  'CrossHair confirms over all paths that entry i is the signature of file i, that failures propagate, and that executor lifetimes are respected; pooled conditions cover batches of up to 3000 files and histories of three batches on real files (failed batches, re-used executors, changed file contents) with nothing stubbed.',
             note='Trusted: CrossHair path exhaustion; the executor/as_completed contract stubs.  Real pools and pickling are outside.',
             ref='3/C13'),
 'C04': dict(engine='X', technique='CrossHair/z3-driven exhaustive case split over signature-ID arrangements, identifier attributes and directory contents on the real ReferenceDatabase / genomes_by_id / locate_files / query code (in-memory SQLite, tagging distance stub)',
             text='For every arrangement of signature IDs within the bound (any order, unrelated extras, missing genomes), every identifier attribute (incl. None / invalid) and every directory '
                  'content subset, loading pairs each genome with the signature carrying its ID and routes that signature\'s distance column to it, or fails exactly in the stated situations.',
             note='Trusted: CrossHair path exhaustion; the signature-file stand-in (ids + metadata) and the tagging stubs.  HDF5 / SQLite file formats are outside.',
             ref='3/C04'),
 'C05': dict(engine='KX', technique='SMT over symbolic read/write sets of the prange iterations of the translated _jaccarddist_parallel (Bernstein conditions) + cell identity against the pairwise kernel with FP operators as uninterpreted functions; CrossHair-driven exhaustive case split of the Python layers with tagged stubs',
             text='K: for every array content and bounds array within the size bound, distinct iterations of the OpenMP loop touch disjoint shared locations (so every schedule gives the '
                  'sequential result), every read is in bounds, and out[i] is the pairwise kernel applied to segment i.  X: for every size, chunk size, index selection (repeats), container kind '
                  'and output buffer within the bound, cell (i,j) of jaccarddist_array/matrix/pairwise holds the value for (queries[i], refs[sel[j]]); pairwise is symmetric with zero diagonal; chunk_slices partitions 0..n.',
             note='Trusted: as C02; the OpenMP runtime and the compiler honouring Cython\'s private/shared classification; tagged stubs for the Cython entry points in the X part.  Real thread counts are outside.',
             ref='3/C05'),
 'C06': dict(engine='KX', technique='bounded model checking: two symbolic executions of calc_signature per obligation (original vs reverse-complemented / reordered / case-flipped input), equality of the accumulated sets decided by SMT; compression choice over a symbolic file header; CrossHair-driven exhaustive case split over file-form pools through the real decompression / text / FASTA parser layers',
             text='Strand symmetry per contig, contig-order independence, signature = union of per-contig signatures (no k-mer across a boundary) and case '
                  'invariance hold for every byte string within the bound; gzip is chosen iff the header is 1f 8b regardless of the name.',
             note='Trusted: as C01; open/gzip/TextIOWrapper replaced by tagging stubs in the K part; in the X part only `open` is replaced (in-memory files).  File-level claims are bounded-exhaustive over pools of genomes and forms.',
             ref='3/C06'),
 'C02': dict(engine='KX', technique='bounded model checking: metric.pyx + gambit.metric translated to SMT (QF_BV merge stage per dtype pair and length bound, QF_FP float stage over all N,M,u < 2^24), z3 + cvc5; plus two CrossHair/z3-enumerated pool conditions running the real functions: strongly unbalanced array pairs beyond the symbolic length bound, and call histories on buffers refilled in place (context-freeness)',
             text='For every pair of sorted duplicate-free arrays up to the length bound, in every accepted dtype pair, the merge loop of the current '
                  'metric.pyx ends with (N,M,u) = (|a|,|b|,|a or b|) with all reads in bounds; for every such triple below 2^24 the returned float32 '
                  'is bit-identical to the exact quotient rounded once (jaccard() = 1 - that); every early return of the Python layer must return the same value.  Pooled: 0-2 against 17 / 40 / 100 elements, all 36 dtype pairs, values at the top of the common range and around 2^53; histories of five in-place refills of two buffers, either function first.  Counterexamples are replayed on the real kernel.',
             note='Trusted: z3/cvc5, kbmc translator and C typing rules (validated against the compiled module), the assume-guarantee cut after the merge loop, specs/jaccard_spec.py.',
             ref='3/C02'),
 'C14': dict(engine='X', technique='CrossHair/z3-driven exhaustive case split over the option and parameter space of the real click callbacks (dist, query, signatures create, tree) with recording stubs; end-to-end CLI replay',
             text='For every way of supplying each side and every choice of k-mer parameters from a pool (differing in k, prefix, both; explicit -k/-p absent, incomplete, matching, '
                  'mismatching), the real callback either raises ClickException before any distance call or write, or uses one and the same KmerSpec on both sides.',
             note='Trusted: CrossHair path exhaustion over the finite space; the recording stubs; click option parsing is outside.',
             ref='3/C14'),
 'C15': dict(engine='K', technique='bounded model checking of the translated metric kernel (QF_BV / QF_FP, UF abstraction for congruence obligations) + exact spec-level triangle inequality over bitmask sets',
             text='Range, d=0 iff equal, d=1 iff disjoint, bit-exact symmetry, width independence and monotonicity are decided by SMT on the translated kernel '
                  '(float stage over all N,M,u within the stated width, integer stage over all arrays within the length bound); triangle inequality exactly over all subsets of a small universe.',
             note='Trusted: as C02; IEEE-754 half-ulp bound used for the 2^-22 slack is cited, not discharged.  One open known finding (float32 resolution for unions >= 2^20).',
             ref='3/C15'),
 'C07': dict(engine='K', technique='bounded model checking: kmers.pyx translated to SMT (QF_BV) per k, z3 + cvc5 cross-check',
             text='For every k = 1..32 (the kernels\' whole domain) and every byte string / index, the negated property is unsat over the '
                  'SMT translation of the current kmers.pyx; counterexamples are replayed on the real kernels.',
             note='Trusted: z3/cvc5, the Cython front-end and C typing rules of kbmc (validated differentially against the compiled module), specs/kmers_spec.py.',
             ref='3/C07'),
 'C16': dict(engine='X', technique='CrossHair/z3-driven exhaustive case split over the 3 x 5 source configurations, sizes and genome choices of the real dist callback (real distance kernels, real dump_dmat_csv / load_dmat_csv on an in-memory file)',
             text='For every way of supplying queries and references, every size within the bound and every choice and order of genomes from the pool, the written CSV has the reference labels as header, '
                  'one row per query label, and each cell equals the two-signature distance formatted to four decimals (labels with commas and double quotes included, read back with the stdlib csv module); --square gives the symmetric zero-diagonal matrix of the queries.',
             note='Trusted: CrossHair path exhaustion; file-reading stubs returning real signature collections; the two-signature distance itself is C02.',
             ref='3/C16'),
 'C17': dict(engine='X', technique='CrossHair/z3-driven exhaustive case split: linkage_to_bio_tree on every contract-satisfying linkage matrix (symbolic merge order and height order type); the real tree command end to end on pool genomes with an all-tie-breaks UPGMA oracle',
             text='For every linkage matrix satisfying scipy\'s contract within the leaf bound the tree has exactly the labels as leaves, is binary and rooted, has non-negative branch lengths, '
                  'equidistant leaves and pairwise path length twice the joining height; the whole command on pool genomes prints a Newick tree that parses back to such a tree for the true UPGMA of the real distances.',
             note='Trusted: CrossHair path exhaustion; scipy linkage outside the pool inputs, Newick rounding below 1e-5.',
             ref='3/C17'),
 'C20': dict(engine='KX', technique='bounded model checking (QF_BV) of AdvancedIndexingMixin.__getitem__/_check_index with a bit-precise numpy dtype model for collection lengths < 2^31; CrossHair-driven exhaustive case split on the real SignatureArray/SignatureList/AnnotatedSignatures',
             text='K: for every integer dtype, every entry value and every collection length below 2^31 the index array reaching _getitem_int_array holds the list-semantics positions, '
                  'out-of-range raises IndexError and the caller\'s array is untouched.  X: every int index, slice triple, index list, mask, 2-3 step mutation sequence and equality variant '
                  'within the bound behaves like numpy indexing of a plain list on the real containers.',
             note='Trusted: z3/cvc5, the kbmc numpy model (comparison, astype/copy aliasing, np.add with out/where casting), numpy itself as the oracle for which positions an index selects.  HDF5Signatures is included through a real file written at harness import.',
             ref='3/C20'),
 'C12': dict(engine='X', category='exploration', technique='CrossHair/z3-driven exhaustive case split over pools of signature collections (container kind, ID kind, metadata, compression; inside each cell k-mer parameters x stored integer type x length pattern); every cell writes a real file with dump_signatures and reads it back with load_signatures',
             text='For every pooled collection the loaded file has the same k-mer parameters, IDs (with their kind), metadata and, for every integer index, every slice over a small range, a set of index lists and a mask, '
                  'the same signatures with the same integer type; ten kinds of foreign file under four names are refused with SignaturesFileError.',
             note='Bounded exploration over finite pools, not a proof; h5py / libhdf5 are executed, not encoded.  szip and files that merely start with the HDF5 magic number are outside.',
             ref='3/C12'),
 'C18': dict(engine='X', category='exploration', technique='CrossHair/z3-driven exhaustive case split over bounded histories (way of opening the database x sequence of operations); every history runs natively on a private copy of the real SQLite + HDF5 files',
             text='For every history of 2 (quick) / 3 (thorough) operations out of 13 kinds (query, distance matrix + tree, signature inspection, failing calls, reopen, rollback, ORM add / edit / delete followed by flush or by an '
                  'autoflushing query, commit, a bulk UPDATE sent past the unit of work and never committed), with the database opened by the library or by the CLI context, both files are byte-identical (sha256) after every step and after closing, no data-modifying SQL statement '
                  'reaches the engine, and commit() is refused.',
             note='Bounded exploration, not a proof: the solver only enumerates the histories; what SQLite / libhdf5 do below the file API is executed, not encoded.  Longer histories, raw SQL the user commits himself and crashes are outside.',
             ref='3/C18'),
}

NOT_APPLICABLE = {
 'C19': 'Crash points between libhdf5 calls and the library\'s flushing behaviour cannot be encoded symbolically.',
}
PENDING = 'not claimed'
ALL = [f'C{i:02d}' for i in range(1, 21)]


def main():
    checks = []
    for pid in ALL:
        if pid not in CHECKS:
            continue
        c = CHECKS[pid]
        checks.append({
            'property_id': pid,
            'quick_cmd': f'./vcheck {pid} --tier quick',
            'thorough_cmd': f'./vcheck {pid} --tier thorough',
            'evidence_file': f'/verif/evidence/{pid}.json',
            'replay_cmd_template': './vcheck replay {path}',
            'engine': 'kbmc' if c['engine'] == 'K' else ('crosshair' if c['engine'] == 'X' else 'kbmc+crosshair'),
            'level_claimed': {'category': c.get('category', 'model_checking'), 'text': c['text'], 'design_ref': f'DESIGN.md section {c["ref"]}'},
            'level_note': c['note'],
            'technique': c['technique'],
        })
    na = []
    for pid in ALL:
        if pid in CHECKS:
            continue
        na.append({'property_id': pid, 'reason': NOT_APPLICABLE.get(pid, PENDING)})
    man = {
        'version': 1,
        'setup_cmd': './setup.sh',
        'hooks': {'guard': 'GAMBIT_VERIF', 'enable': 'no source hooks: all substitution is done by the harness in its own process (GAMBIT_VERIF=1 is exported by ./vcheck but read by nothing in /repo)',
                  'baseline_off_cmd': 'cd /repo && /venv/bin/python -m pytest -ra -q -p no:cacheprovider --timeout=900 --continue-on-collection-errors',
                  'source_commits': [], 'add_only': True},
        'engines': [
            {'name': 'kbmc', 'path': 'kbmc/', 'serves_properties': [p for p, c in CHECKS.items() if 'K' in c['engine']],
             'kind_free_text': 'own bounded model checker: guarded symbolic evaluation of the repository\'s Python/Cython AST into SMT (z3, cvc5 cross-check)'},
            {'name': 'crosshair', 'path': 'xh/', 'serves_properties': [p for p, c in CHECKS.items() if 'X' in c['engine']],
             'kind_free_text': 'CrossHair 0.0.110 harnesses over the real objects with contract stubs (symbolic execution with z3)'},
        ],
        'checks': checks,
        'not_applicable': na,
        'notes': 'Solver-based checking of the real code; see DESIGN.md.  Exit codes: 0 held, 1 reproduced violation, 2 harness error / inconclusive.',
    }
    with open(os.path.join(HERE, 'MANIFEST.json'), 'w') as f:
        json.dump(man, f, indent=1)
    print('MANIFEST.json:', len(checks), 'checks,', len(na), 'not applicable/pending')

if __name__ == '__main__':
    main()
