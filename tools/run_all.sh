#!/bin/bash
# Runs every registered check of the given tier on the current tree, one after the other; prints exit status and wall time.
cd "$(dirname "$0")/.."
TIER=${1:-quick}
git -C /repo status --short | grep -q . && echo "WARNING: /repo working tree is not clean"
for p in $(python3 -c "import json; print(' '.join(c['property_id'] for c in json.load(open('MANIFEST.json'))['checks']))"); do
  s=$(date +%s)
  ./vcheck $p --tier $TIER > /tmp/run_all_${TIER}_$p.log 2>&1
  rc=$?
  echo "$p exit=$rc wall=$(( $(date +%s) - s ))s $(grep -c '^VIOLATION' /tmp/run_all_${TIER}_$p.log) violation lines; $(tail -1 /tmp/run_all_${TIER}_$p.log | cut -c1-160)"
done
