#!/bin/bash
# eval_seed.sh <property> <worktree> [tier] [seed-id] : confirm a seeded change (tests + demo with/without) in its scratch worktree, store it under
# /verif/seeded/<property>/, apply it to /repo, run the property's check, undo.  Prints a one-line summary.
P=$1; WT=$2; TIER=${3:-quick}; SID=${4:-$P}
OUT=/verif/seeded/$SID; mkdir -p $OUT
cd $WT || exit 3
git diff -- src > $OUT/patch.diff
cp demo_$P.py $OUT/ 2>/dev/null; cp MUTANT.md $OUT/agent_notes.md 2>/dev/null
[ -s $OUT/patch.diff ] || { echo "$P: empty patch"; exit 3; }
# with the change
PYTHONPATH=$WT/src /venv/bin/python demo_$P.py > $OUT/demo_with.log 2>&1; DW=$?
TESTS=$(PYTHONPATH=$WT/src /venv/bin/python -m pytest -q -p no:cacheprovider --timeout=900 tests 2>&1 | tail -1)
# without the change
git apply -R $OUT/patch.diff && { PYTHONPATH=$WT/src /venv/bin/python demo_$P.py > $OUT/demo_without.log 2>&1; DO=$?; git apply $OUT/patch.diff; }
# against the checks
cd /verif
[ "$EVAL_PHASE" = confirm ] && { echo "$P demo_with=$DW demo_without=$DO tests='$TESTS' (confirm only)"; exit 0; }
git -C /repo status --short | grep -q . && { echo "$P: /repo not clean"; exit 3; }
git -C /repo apply $OUT/patch.diff || { echo "$P: patch does not apply to /repo"; exit 3; }
./vcheck $P --tier $TIER > $OUT/check_$TIER.log 2>&1; RC=$?
git -C /repo checkout -- .
V=$(grep -m1 -A1 '^VIOLATION' $OUT/check_$TIER.log | tail -1 | cut -c1-300)
echo "$P demo_with=$DW demo_without=$DO tests='$TESTS' check_exit=$RC :: $V"
