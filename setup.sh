#!/bin/bash
# Builds /verif/.venv: an overlay of the repository's own interpreter environment (/venv) plus
# crosshair-tool, z3-solver and cvc5 from the offline wheelhouse.  Idempotent; offline.
set -e
cd "$(dirname "$0")"
VENV=/verif/.venv
if [ -x "$VENV/bin/python" ] && "$VENV/bin/python" -c "import crosshair, z3, cvc5, numpy, gambit" 2>/dev/null; then
  echo "setup: $VENV ok"; exit 0
fi
rm -rf "$VENV"
/venv/bin/python -m venv "$VENV"
SP=$("$VENV/bin/python" -c "import site; print(site.getsitepackages()[0])")
echo "import site; site.addsitedir('/venv/lib/python3.12/site-packages')" > "$SP/_base_venv.pth"
PIP_NO_INDEX=1 "$VENV/bin/pip" install --quiet --no-index --find-links /opt/veriftools/wheels crosshair-tool z3-solver cvc5
"$VENV/bin/python" -c "import crosshair, z3, cvc5, numpy, gambit; print('setup: built', crosshair.__version__, z3.get_version_string(), numpy.__version__)"
