"""C11 harness (engine X): the real CSVResultsExporter / JSONResultsExporter / ResultsArchiveWriter+Reader on result sets
whose optional parts (reported taxon, next taxon, primary match, source file, warnings, error) are present or absent and
whose text / numeric fields come from pools of awkward values (commas, quotes, newlines, non-ASCII, float32 edge values).
The solver enumerates the combinations (fork_int); each cell runs the real exporters natively, including the csv / json
text layer and an archive round trip through an in-memory SQLite database."""
import os
import io
import csv
import json
import math
import numpy as np
from sqlalchemy import create_engine
from sqlalchemy.orm import sessionmaker

from gambit.db.models import Base, Genome, AnnotatedGenome, ReferenceGenomeSet, Taxon
from gambit.db import reportable_taxon
from gambit.classify import ClassifierResult, GenomeMatch
from gambit.query import QueryResults, QueryResultItem, QueryInput, QueryParams
from gambit.results import CSVResultsExporter, JSONResultsExporter, ResultsArchiveWriter, ResultsArchiveReader
from gambit.sigs.base import SignaturesMeta
from gambit.seq import SequenceFile
from xh.taxo import fork_int, NoTracing

P = json.loads(os.environ.get('XH_PARAMS', '{}') or '{}')
TEXTS = ['plain', 'a,b', 'say "hi"', 'two\nlines', 'Escherichia coli üñï', '', ' padded ', "it's; tab\there", 'cr\r\nlf', '中文',
         '-80C_freezer_isolate', '=A1+B1 @home']        # leading characters that spreadsheet software treats as formulas: must come through unchanged
DISTS = [np.float32(0), np.float32(1), np.float32(0.1), np.float32(1) / np.float32(3), np.float32(1e-45), np.float32(0.99999994), np.float32(2.5e-7)]
THRS = [0.5, 0.0, 1e-7, float(np.float32(0.7379808)), 0.1 + 0.2]
DOC_COLUMNS = ['query', 'predicted.name', 'predicted.rank', 'predicted.ncbi_id', 'predicted.threshold', 'closest.distance', 'closest.description',
               'next.name', 'next.rank', 'next.ncbi_id', 'next.threshold']


def _build(name_i, thr_i):
    engine = create_engine('sqlite://')
    Base.metadata.create_all(engine)
    s = sessionmaker(engine)()
    gset = ReferenceGenomeSet(key='gs', version='1.0', name='set ' + TEXTS[name_i], description=TEXTS[name_i])
    s.add(gset)
    genus = Taxon(key='G', name='Genus ' + TEXTS[name_i], rank='genus', genome_set=gset, distance_threshold=THRS[thr_i], ncbi_id=561, report=True)
    hidden = Taxon(key='H', name='hidden ' + TEXTS[name_i], rank=None, genome_set=gset, distance_threshold=0.25, parent=genus, report=False)
    species = Taxon(key='S', name=TEXTS[name_i], rank='species', genome_set=gset, distance_threshold=THRS[(thr_i + 1) % len(THRS)], parent=hidden, ncbi_id=None, report=True)
    # a root-level taxon that is not reportable and has no reportable ancestor: predicted, but nothing to report
    lone = Taxon(key='X', name='unreportable root ' + TEXTS[name_i], rank='clade', genome_set=gset, distance_threshold=0.9, report=False)
    s.add(lone)
    gens = []
    for i, t in enumerate((species, hidden, genus)):
        g = Genome(key=f'k{i}' + TEXTS[name_i][:3], description=f'desc {i} ' + TEXTS[(name_i + i) % len(TEXTS)], ncbi_db='assembly', ncbi_id=10 + i, genbank_acc=f'GCA_{i}', refseq_acc=None if i else 'GCF_0')
        ag = AnnotatedGenome(genome=g, genome_set=gset, taxon=t, organism='org ' + TEXTS[name_i])
        s.add(ag)
        gens.append(ag)
    s.commit()
    return s, gset, (species, hidden, genus, lone), gens


_CACHE = {}


def world(name_i, thr_i):
    k = (name_i, thr_i)
    if k not in _CACHE:
        _CACHE[k] = _build(name_i, thr_i)
    return _CACHE[k]


# databases are created at import time (outside the analysis: CrossHair blocks side effects such as opening connections)
for _n in sorted({P['name_i'], 1} if 'name_i' in P else set(range(len(TEXTS)))):
    for _t in range(len(THRS)):
        world(_n, _t)


def make_item(w, label_i, pred, nxt, dist_i, with_file, strict_fail):
    s, gset, taxa, gens = w
    species, hidden, genus, lone = taxa
    # hidden is not reportable: the user-facing taxon is its ancestor; lone is not reportable and has no ancestor at all
    predicted = [None, species, hidden, genus, lone][pred]
    next_taxon = [None, species, genus][nxt]
    d = DISTS[dist_i]
    closest = GenomeMatch(genome=gens[dist_i % 3], distance=d, matched_taxon=predicted)
    primary = closest if predicted is not None else None
    res = ClassifierResult(success=not strict_fail, predicted_taxon=None if strict_fail else predicted, primary_match=None if strict_fail else primary,
                           closest_match=closest, next_taxon=next_taxon,
                           warnings=['Query matched 2 inconsistent taxa: ' + TEXTS[label_i]] if strict_fail else [], error='Matched taxa have no common ancestor.' if strict_fail else None)
    inp = QueryInput(TEXTS[label_i], SequenceFile('dir/' + (TEXTS[label_i].replace('\n', '_').replace('\r', '_') or 'x') + '.fa', 'fasta', 'gzip' if label_i % 2 else None) if with_file else None)
    others = [GenomeMatch(genome=gens[(dist_i + 1) % 3], distance=DISTS[(dist_i + 1) % len(DISTS)], matched_taxon=None)]
    return QueryResultItem(input=inp, classifier_result=res, report_taxon=reportable_taxon(res.predicted_taxon), closest_genomes=[closest] + others)


def cell_str(v):
    return '' if v is None else str(v)


def _check(name_i, thr_i, n, specs):
    # history: the same process has just exported results of ANOTHER database (same row ids, other names and thresholds) in every
    # format, with exporter objects of its own; nothing of that may show up in what follows
    dw = world(1 if name_i != 1 else name_i, (thr_i + 1) % len(THRS))
    ditems = [make_item(dw, *sp) for sp in specs[:n]] or [make_item(dw, 0, 1, 1, 0, False, False)]
    dres = QueryResults(items=ditems, params=QueryParams(), genomeset=dw[1], signaturesmeta=SignaturesMeta(id='decoy'), extra={})
    for exporter in (CSVResultsExporter(), JSONResultsExporter(), ResultsArchiveWriter()):
        exporter.export(io.StringIO(), dres)
    w = world(name_i, thr_i)
    s, gset, taxa, gens = w
    items = [make_item(w, *sp) for sp in specs[:n]]
    results = QueryResults(items=items, params=QueryParams(classify_strict=bool(specs[0][5]), chunksize=7, report_closest=2), genomeset=gset,
                           signaturesmeta=SignaturesMeta(id='sig ' + TEXTS[name_i], name=TEXTS[name_i], version='1.0', id_attr='key', description=TEXTS[name_i],
                                                         extra={'k': [1, 2.5, None, TEXTS[name_i]]}), extra={'note': TEXTS[name_i], 'n': n})
    # ---- CSV
    buf = io.StringIO()
    CSVResultsExporter().export(buf, results)
    rows = list(csv.reader(io.StringIO(buf.getvalue(), newline='')))
    if rows[0] != DOC_COLUMNS:
        return False, f'csv header {rows[0]}'
    if len(rows) != n + 1:
        return False, f'csv has {len(rows) - 1} rows for {n} queries'
    for it, row in zip(items, rows[1:]):
        rt, nt, cm = it.report_taxon, it.classifier_result.next_taxon, it.classifier_result.closest_match
        want = [it.input.label] + ([rt.name, rt.rank, rt.ncbi_id, rt.distance_threshold] if rt is not None else [None] * 4) \
            + [cm.distance, cm.genome.description] + ([nt.name, nt.rank, nt.ncbi_id, nt.distance_threshold] if nt is not None else [None] * 4)
        want = [cell_str(v) for v in want]
        if row != want:
            return False, f'csv row {row} != {want}'
        if row[5] != '' and np.float32(float(row[5])) != cm.distance:
            return False, f'csv distance {row[5]} does not read back as {cm.distance!r}'
    # ---- JSON
    buf = io.StringIO()
    JSONResultsExporter().export(buf, results)
    data = json.loads(buf.getvalue())
    if len(data['items']) != n:
        return False, 'json item count'

    def taxon_ok(js, t):
        if t is None:
            return js is None
        return js is not None and js['key'] == t.key and js['name'] == t.name and js['rank'] == t.rank and js['ncbi_id'] == t.ncbi_id and js['distance_threshold'] == t.distance_threshold
    for it, js in zip(items, data['items']):
        if js['query']['name'] != it.input.label:
            return False, 'json label'
        if (js['query']['path'] is None) != (it.input.file is None):
            return False, 'json path'
        if not taxon_ok(js['predicted_taxon'], it.report_taxon) or not taxon_ok(js['next_taxon'], it.classifier_result.next_taxon):
            return False, f'json taxa {js["predicted_taxon"]} {js["next_taxon"]}'
        if len(js['closest_genomes']) != len(it.closest_genomes):
            return False, 'json closest list length'
        for m, mj in zip(it.closest_genomes, js['closest_genomes']):
            if np.float32(mj['distance']) != m.distance or float(m.distance) != mj['distance'] or mj['genome']['key'] != m.genome.key \
                    or mj['genome']['description'] != m.genome.description or [t['key'] for t in mj['genome']['taxonomy']] != [t.key for t in m.genome.taxon.ancestors(incself=True)]:
                return False, f'json closest genome {mj}'
            if not taxon_ok(mj['matched_taxon'], m.matched_taxon):
                return False, 'json matched taxon'
    # ---- archive round trip
    buf = io.StringIO()
    ResultsArchiveWriter().export(buf, results)
    # several readers may be alive at once (one per database session in a long-running process): every one of them, in
    # whatever order they were constructed and are used, must reconstruct the same results
    readers = [ResultsArchiveReader(s), ResultsArchiveReader(s)]
    for which in (0, 1, 0):
        buf.seek(0)
        try:
            back = readers[which].read(buf)
        except Exception as e:   # noqa
            return False, f'archive read by reader #{which} of 2 raised {type(e).__name__}: {str(e)[:200]}'
        if back != results:
            return False, f'reader #{which}: archive round trip differs'
        for a, b in zip(back.items, results.items):
            for ma, mb in zip(a.closest_genomes, b.closest_genomes):
                if np.float32(ma.distance).tobytes() != np.float32(mb.distance).tobytes() or float(ma.distance) != float(mb.distance):
                    return False, f'reader #{which}: archive distance {ma.distance!r} != {mb.distance!r}'
            if a.classifier_result.warnings != b.classifier_result.warnings or a.classifier_result.error != b.classifier_result.error:
                return False, f'reader #{which}: archive warnings/error'
        if back.params != results.params or back.extra != results.extra or back.timestamp != results.timestamp or back.signaturesmeta != results.signaturesmeta:
            return False, f'reader #{which}: archive params/extra/timestamp/meta'
    return True, None


def _run1(name_i, label_i, pred, nxt, dist_i, with_file, fail):
    nc = fork_int(name_i, 0, len(TEXTS) - 1)
    sp = (fork_int(label_i, 0, len(TEXTS) - 1), fork_int(pred, 0, 4), fork_int(nxt, 0, 2), fork_int(dist_i, 0, len(DISTS) - 1), bool(with_file), bool(fail))
    with NoTracing():
        return _check(nc, (nc + sp[3]) % len(THRS), 1, [sp])


def _c11_one(name_i: int, l0: int, p0: int, x0: int, d0: int, f0: bool, e0: bool) -> bool:
    """
    One result item: every combination of presence / absence of its optional parts and of the pooled text and float values.
    pre: 0 <= name_i < len(TEXTS) and 0 <= l0 < len(TEXTS) and 0 <= p0 <= 4 and 0 <= x0 <= 2 and 0 <= d0 < len(DISTS)
    pre: ('name_i' not in P or name_i == P['name_i']) and ('maxdist' not in P or d0 < P['maxdist']) and ('file' not in P or f0 == bool(P['file']))
    post: _
    """
    return _run1(name_i, l0, p0, x0, d0, f0, e0)[0]


def explain_c11_one(name_i, l0, p0, x0, d0, f0, e0):
    return {'names': TEXTS[name_i], 'label': TEXTS[l0], 'predicted(0 none,1 species,2 hidden,3 genus,4 unreportable root)': p0, 'next(0 none,1 species,2 genus)': x0, 'dist': repr(DISTS[d0]), 'file': f0,
            'failed_strict': e0, 'why': _run1(name_i, l0, p0, x0, d0, f0, e0)[1]}


def _run2(n, p0, x0, e0, p1, x1, e1, p2, x2, e2):
    nn = fork_int(n, 0, 3)
    sp = [(1 + k, fork_int(p, 0, 4), fork_int(x, 0, 2), k, k % 2 == 0, bool(e)) for k, (p, x, e) in enumerate(((p0, x0, e0), (p1, x1, e1), (p2, x2, e2)))]
    with NoTracing():
        return _check(1, 0, nn, sp) if nn else _check(1, 0, 0, sp)


def _c11_many(n: int, p0: int, x0: int, e0: bool, p1: int, x1: int, e1: bool, p2: int, x2: int, e2: bool) -> bool:
    """
    0..3 result items with every pattern of present / absent parts: one row / item per query, in order.
    pre: 0 <= n <= int(P.get('maxitems', 2)) and all(0 <= p <= 4 for p in (p0, p1, p2)) and all(0 <= x <= 2 for x in (x0, x1, x2)) and ('p0' not in P or p0 == P['p0'])
    pre: (n > 0 or (p0 == 0 and x0 == 0 and not e0)) and (n > 1 or (p1 == 0 and x1 == 0 and not e1)) and (n > 2 or (p2 == 0 and x2 == 0 and not e2))
    post: _
    """
    return _run2(n, p0, x0, e0, p1, x1, e1, p2, x2, e2)[0]


def explain_c11_many(n, p0, x0, e0, p1, x1, e1, p2, x2, e2):
    return {'items': n, 'patterns(pred,next,failed)': [(p0, x0, e0), (p1, x1, e1), (p2, x2, e2)][:n], 'why': _run2(n, p0, x0, e0, p1, x1, e1, p2, x2, e2)[1]}
