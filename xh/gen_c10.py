from xh import gen
import os


def make(T, G):
    s = {'T': str(T), 'G': str(G)}
    for key, prefix, n, typ in (('M', 'm', G, 'int'), ('A', 'a', G, 'int'), ('D', 'd', G, 'int'), ('TH', 'th', T, 'int')):
        s[key + '_ARGS'] = gen.args(prefix, n, typ)
        s[key + '_LIST'] = gen.lst(prefix, n)
        s[key + '_NAMES'] = ', '.join(gen.names(prefix, n))
    return gen.emit(os.path.join(os.path.dirname(__file__), 't_c10.py.tmpl'), f'h_c10_T{T}_G{G}.py', s)
