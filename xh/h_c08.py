"""C08 harness (engine X).

(1) Label function: directories (get_file_id / os.path.basename) on a pool of directory and file names.
(2) The real `gambit query` callback, get_sequence_files, query_parse, query with recording stubs for signature
    calculation, distance matrix, per-row classification and export: one result per input, in order, labelled from the
    listed name, classified from its own distance row only.  Batch composition, order and input channel are chosen by
    the solver (fork_int) and the real code then runs natively."""
import os
import io
import json
import types
import click
import numpy as np

import gambit.cli.query as cquery
import gambit.cli.common as common
import gambit.query as gquery
import gambit.sigs.calc as gcalc
from gambit.cli.common import strip_seq_file_ext, get_file_id, FASTA_EXTENSIONS, GZIP_EXTENSIONS
from gambit.query import QueryResultItem
from gambit.kmers import KmerSpec
from xh.taxo import fork_int, NoTracing

P = json.loads(os.environ.get('XH_PARAMS', '{}') or '{}')
MAXLEN = int(P.get('maxlen', 4))
EXTS = list(FASTA_EXTENSIONS)


# ---- (1) labels: the extension-stripping function is decided by engine K on symbolic strings (props/C08.py); directory handling below

DIRS = ['', 'd', 'a/b', '/abs/x.fasta', '..', 'x.gz']
NAMES = ['a.fasta', 'sub/b.fa.gz', 'c', 'd.fna.gz', 'other/a.fna', '../e.frn']      # two different files share the label 'a'
LABELS = ['a', 'b', 'c', 'd', 'a', 'e']


def _dir_concrete(di, ni):
    name, label = NAMES[ni].split('/')[-1], LABELS[ni]
    path = (DIRS[di] + '/' if DIRS[di] else '') + name
    return get_file_id(path) == label and get_file_id(path, strip_dir=False) == path and get_file_id(path, strip_ext=False) == name, path


def _c08_dirs(di: int, ni: int) -> bool:
    """
    The label ignores leading directories (whatever they are called).
    pre: 0 <= di < len(DIRS) and 0 <= ni < len(NAMES)
    post: _
    """
    a = (fork_int(di, 0, len(DIRS) - 1), fork_int(ni, 0, len(NAMES) - 1))
    with NoTracing():
        return _dir_concrete(*a)[0]
KS = KmerSpec(9, 'AT')


class FakeSigs:
    def __init__(self, ids):
        self.ids = list(ids)
        self.kmerspec = KS
        self.meta = types.SimpleNamespace(id_attr='key')

    def __len__(self):
        return len(self.ids)

    def __iter__(self):
        return iter([sig_of(i) for i in self.ids])


_SIG_IDS = {}


def sig_of(key):
    """A real (one-element) signature array that identifies what it was computed from."""
    key = os.path.normpath(str(key))
    _SIG_IDS.setdefault(key, len(_SIG_IDS) + 1)
    return np.array([_SIG_IDS[key]], dtype='u4')


def is_sig_of(sig, key):
    key = os.path.normpath(str(key))
    return isinstance(sig, np.ndarray) and sig.shape == (1,) and key in _SIG_IDS and int(sig[0]) == _SIG_IDS[key]


def _rows_concrete(n, picks, channel, ldir_i, blank):
    picks = picks[:n]
    rec = {'exported': None, 'calc': None}
    ldir = ['.', 'base/dir'][ldir_i]
    db = types.SimpleNamespace(signatures=FakeSigs(['r1', 'r2']), genomes=[], genomeset=None, sig_indices=[0, 1])
    obj = types.SimpleNamespace(get_database=lambda: db)
    params = dict(listfile=None, ldir=ldir, files_arg=[], sigfile=None, output=io.StringIO(), outfmt='csv', strict=False, progress=False, cores=None)
    if channel == 0:
        params['files_arg'] = [NAMES[p] for p in picks]
        expect_paths = [NAMES[p] for p in picks]
    elif channel == 1:
        lines = []
        for p in picks:
            lines.append('  ' + NAMES[p] + ' ' if blank else NAMES[p])
            if blank:
                lines.append('')
        params['listfile'] = io.StringIO('\n'.join(lines) + ('\n' if blank else ''))
        expect_paths = [os.path.join(ldir, NAMES[p]) for p in picks]
    else:
        params['sigfile'] = 'q.gs'
        expect_paths = None
    # stored IDs are used verbatim, also when they look like paths or file names (or are integers)
    stored = [[f'runs/2024/{NAMES[p]}', f'stored-{p}.fasta.gz', 7000 + p][p % 3] for p in picks]
    expect_labels = [LABELS[p] for p in picks] if channel != 2 else list(stored)

    class SigTags(list):
        """stands in for the SignatureList the real function returns: a sequence with the k-mer parameters attached"""
        kmerspec = KS
        dtype = np.dtype('u4')

    def calc_file_signatures(kspec, files, **kw):
        rec['calc'] = (rec['calc'] or []) + [str(f.path) for f in files]
        out = SigTags([sig_of(f.path) for f in files])
        out.kmerspec = kspec
        return out

    def load_signatures(path, **kw):
        return FakeSigs(list(stored))

    def jaccarddist_matrix(queries, refs, **kw):
        rec['queries'] = list(queries)
        # row i is filled with i (exact in float32)
        return np.array([[float(i)] * 2 for i in range(len(queries))], dtype=np.float32)

    def get_result_item(db_, params_, dists, input):
        return QueryResultItem(input=input, classifier_result=('classified-from-row', [float(x) for x in dists]))

    class Exporter:
        def export(self, output, results):
            rec['exported'] = results

    saved = (cquery.load_signatures, cquery.get_exporter, cquery.omp_set_num_threads, gcalc.calc_file_signatures, gquery.jaccarddist_matrix, gquery.get_result_item)
    cquery.load_signatures, cquery.get_exporter, cquery.omp_set_num_threads = load_signatures, (lambda fmt: Exporter()), (lambda c: None)
    gcalc.calc_file_signatures, gquery.jaccarddist_matrix, gquery.get_result_item = calc_file_signatures, jaccarddist_matrix, get_result_item
    ctx = types.SimpleNamespace(params=params, command=cquery.query_cmd, obj=obj)
    try:
        try:
            cquery.query_cmd.callback.__wrapped__(ctx, **params)
            status = 'ok'
        except click.ClickException as e:
            status = 'click-error: ' + e.message
        except Exception as e:   # noqa
            status = 'exception: ' + repr(e)
    finally:
        cquery.load_signatures, cquery.get_exporter, cquery.omp_set_num_threads, gcalc.calc_file_signatures, gquery.jaccarddist_matrix, gquery.get_result_item = saved
    if n == 0:
        # no input at all: any refusal is fine as long as nothing is exported
        return status != 'ok' and rec['exported'] is None, status
    if status != 'ok' or rec['exported'] is None:
        return False, status
    items = rec['exported'].items
    if len(items) != n:
        return False, f'{len(items)} result items for {n} inputs'
    for i, it in enumerate(items):
        if it.input.label != expect_labels[i]:
            return False, f'item {i} labelled {it.input.label!r}, expected {expect_labels[i]!r}'
        if it.classifier_result != ('classified-from-row', [float(i)] * 2):
            return False, f'item {i} classified from {it.classifier_result}'
        if channel != 2:
            if it.input.file is None or os.path.normpath(str(it.input.file.path)) != os.path.normpath(expect_paths[i]):
                return False, f'item {i} refers to file {it.input.file}, expected {expect_paths[i]}'
            if not is_sig_of(rec['queries'][i], expect_paths[i]):
                return False, f'query signature {i} was not computed from {expect_paths[i]} (files parsed: {rec["calc"]})'
        else:
            if not is_sig_of(rec['queries'][i], expect_labels[i]):
                return False, f'query {i} is not the stored signature {expect_labels[i]}'
    return True, None


def _rows_run(n, p0, p1, p2, channel, ldir_i, blank):
    a = [fork_int(n, 0, 3), [fork_int(p0, 0, len(NAMES) - 1), fork_int(p1, 0, len(NAMES) - 1), fork_int(p2, 0, len(NAMES) - 1)], fork_int(channel, 0, 2), fork_int(ldir_i, 0, 1)]
    with NoTracing():
        return _rows_concrete(*a, bool(blank))


def _c08_rows(n: int, p0: int, p1: int, p2: int, channel: int, ldir_i: int, blank: bool) -> bool:
    """
    pre: 0 <= n <= 3 and all(0 <= p < len(NAMES) for p in (p0, p1, p2)) and 0 <= channel <= 2 and 0 <= ldir_i <= 1
    pre: (n > 0 or p0 == 0) and (n > 1 or p1 == 0) and (n > 2 or p2 == 0) and (channel == 1 or (ldir_i == 0 and not blank))
    post: _
    """
    return _rows_run(n, p0, p1, p2, channel, ldir_i, blank)[0]


def explain_c08_rows(n, p0, p1, p2, channel, ldir_i, blank):
    return {'inputs': [NAMES[p] for p in (p0, p1, p2)[:n]], 'channel': ['positional', 'list file', 'signature file'][channel], 'ldir': ['.', 'base/dir'][ldir_i],
            'blank_lines_and_padding': blank, 'why': _rows_run(n, p0, p1, p2, channel, ldir_i, blank)[1]}


def _channels_concrete(has_files, has_list, has_sig):
    params = dict(files_arg=['a.fa'] if has_files else [], listfile=io.StringIO('a.fa\n') if has_list else None, sigfile='q.gs' if has_sig else None)
    ctx = types.SimpleNamespace(params=params, command=cquery.query_cmd)
    try:
        common.check_params_group(ctx, ['files_arg', 'listfile', 'sigfile'], True, True)
        ok = True
    except click.ClickException:
        ok = False
    return ok == (has_files + has_list + has_sig == 1), None


def _c08_channels(has_files: bool, has_list: bool, has_sig: bool) -> bool:
    """
    Exactly one input channel is accepted.
    post: _
    """
    a = (bool(has_files), bool(has_list), bool(has_sig))
    with NoTracing():
        return _channels_concrete(*a)[0]


# ---- (3) context freedom with nothing stubbed: real query() on a small real database ------------------------------------------
# A row depends only on its genome and the database: alone or within any batch, in any order, for every reference chunk size.

from sqlalchemy import create_engine
from sqlalchemy.orm import sessionmaker
from gambit.db.models import Base, Genome, AnnotatedGenome, ReferenceGenomeSet, Taxon
from gambit.db.refdb import ReferenceDatabase
from gambit.db.sqla import ReadOnlySession
from gambit.sigs.base import SignatureArray, SignatureList, AnnotatedSignatures, SignaturesMeta
from gambit.query import QueryParams, query as real_query

CKS = KmerSpec(8, 'ATG')
NREF = 5


def _mk_sig(seed, n=40):
    import random
    r = random.Random(seed)
    return np.array(sorted(r.sample(range(600), n)), dtype=CKS.index_dtype)


def _mk_db():
    engine = create_engine('sqlite://')
    Base.metadata.create_all(engine)
    s = sessionmaker(engine)()
    gset = ReferenceGenomeSet(key='ctx', version='1', name='context test')
    genus = Taxon(key='g', name='Genus', rank='genus', genome_set=gset, distance_threshold=0.95)
    sp = [Taxon(key=f's{i}', name=f'Genus species{i}', rank='species', genome_set=gset, distance_threshold=0.6, parent=genus) for i in range(2)]
    s.add(gset)
    refsigs = []
    for i in range(NREF):
        g = Genome(key=f'r{i}', description=f'reference {i}')
        s.add(AnnotatedGenome(genome=g, genome_set=gset, taxon=sp[i % 2] if i < 4 else genus, organism='o'))
        refsigs.append(_mk_sig(100 + i))
    s.commit()
    ro = sessionmaker(engine, class_=ReadOnlySession)()
    gs = ro.query(ReferenceGenomeSet).one()
    # stored in another order than the genome set, with an unrelated signature in between
    order = [3, 0, 4, 1, 2]
    sigs = [refsigs[i] for i in order[:2]] + [_mk_sig(999)] + [refsigs[i] for i in order[2:]]
    ids = [f'r{i}' for i in order[:2]] + ['unrelated'] + [f'r{i}' for i in order[2:]]
    ann = AnnotatedSignatures(SignatureArray(sigs, CKS), ids, SignaturesMeta(id_attr='key'))
    return ReferenceDatabase(gs, ann), refsigs


CDB, CREFS = _mk_db()
# queries: near reference 0, near reference 3, in between, far from everything, identical to reference 4
CQ = [np.array(sorted(set(CREFS[0].tolist()[:34]) | {601, 602}), dtype=CKS.index_dtype), np.array(sorted(set(CREFS[3].tolist()[5:]) | {603}), dtype=CKS.index_dtype),
      np.array(sorted(set(CREFS[1].tolist()[:20]) | set(CREFS[2].tolist()[:20])), dtype=CKS.index_dtype), np.array([610, 611, 612], dtype=CKS.index_dtype), CREFS[4].copy()]
CHUNKS = [None, 1, 2, 3, 4, 5, 6, 7, 1000]


def _row(item):
    cr = item.classifier_result
    return (item.report_taxon.key if item.report_taxon is not None else None, cr.success, cr.predicted_taxon.key if cr.predicted_taxon is not None else None,
            cr.next_taxon.key if cr.next_taxon is not None else None, tuple((m.genome.key, np.float32(m.distance).tobytes().hex()) for m in item.closest_genomes), tuple(cr.warnings))


_ALONE = {}


def _alone(qi):
    if qi not in _ALONE:
        res = real_query(CDB, SignatureList([CQ[qi]], CKS), QueryParams(), progress=None)
        _ALONE[qi] = _row(res.items[0])
    return _ALONE[qi]


def _context_concrete(n, picks, chunk_i, strict):
    qs = picks[:n]
    params = QueryParams(classify_strict=bool(strict)) if CHUNKS[chunk_i] is None else QueryParams(chunksize=CHUNKS[chunk_i], classify_strict=bool(strict))
    res = real_query(CDB, SignatureList([CQ[q] for q in qs], CKS), params, progress=None)
    if len(res.items) != n:
        return False, f'{len(res.items)} rows for {n} inputs'
    for pos, q in enumerate(qs):
        if strict:
            alone = _row(real_query(CDB, SignatureList([CQ[q]], CKS), QueryParams(classify_strict=True), progress=None).items[0])
        else:
            alone = _alone(q)
        got = _row(res.items[pos])
        if got != alone:
            return False, f'row {pos} (query #{q}) in batch {qs} with chunk size {CHUNKS[chunk_i]} is {got}; alone with default parameters it is {alone}'
    return True, None


def _context_cell(n, picks, chunk_i):
    for strict in (False, True):
        ok, why = _context_concrete(n, picks, chunk_i, strict)
        if not ok:
            return False, f'strict={strict}: {why}'
    return True, None


def _context_run(n, p0, p1, p2, chunk_i):
    a = (fork_int(n, 1, 3), [fork_int(p, 0, len(CQ) - 1) for p in (p0, p1, p2)], fork_int(chunk_i, 0, len(CHUNKS) - 1))
    with NoTracing():
        return _context_cell(*a)


def _c08_context(n: int, p0: int, p1: int, p2: int, chunk_i: int) -> bool:
    """
    pre: 1 <= n <= int(P.get('maxn', 3)) and all(0 <= p < len(CQ) for p in (p0, p1, p2)) and 0 <= chunk_i < len(CHUNKS) and (n > 1 or p1 == 0) and (n > 2 or p2 == 0)
    pre: 'chunk_i' not in P or chunk_i == P['chunk_i']
    post: _
    """
    return _context_run(n, p0, p1, p2, chunk_i)[0]


def explain_c08_context(n, p0, p1, p2, chunk_i):
    return {'batch (query numbers)': [p0, p1, p2][:n], 'chunk size': CHUNKS[chunk_i], 'references': NREF, 'why': _context_run(n, p0, p1, p2, chunk_i)[1]}
