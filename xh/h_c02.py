"""C02 harness (engine X, solver-enumerated pools): the real gambit.metric.jaccarddist / jaccard on array pairs whose lengths are far
beyond the bound of the symbolic merge-loop obligations of engine K and strongly unbalanced (1-2 elements against 17-100), with values
at the top of the common range of the two integer types, near 2^53 and near 0.  The solver enumerates the dtype pair; the shapes and
placements are looped over inside each cell.  Oracle: specs/jaccard_spec.py (exact quotient rounded once)."""
import os
import json
import numpy as np

import gambit.metric as gmetric
from specs import jaccard_spec as J
from xh.taxo import fork_int, NoTracing
from xh import scratchdir

P = json.loads(os.environ.get('XH_PARAMS', '{}') or '{}')
DTYPES = ['u2', 'u4', 'u8', 'i2', 'i4', 'i8']
SMALL = [0, 1, 2]
LARGE = [17, 40, 100]


def _cases(dt1, dt2):
    top = min(int(np.iinfo(dt1).max), int(np.iinfo(dt2).max))
    anchors = [top, 0 + 150]
    if top > 2 ** 53 + 200:
        anchors.append(2 ** 53 + 130)
    for hi in anchors:
        for ln in LARGE:
            large = list(range(hi - ln + 1, hi + 1))
            for sn in SMALL:
                picks = {0: [[]], 1: [[large[-1]], [large[0]], [large[ln // 2]], [large[0] - 1] if large[0] > 0 else [large[0]]],
                         2: [[large[-2], large[-1]], [large[0], large[-1]], [large[0] - 2, large[3]] if large[0] > 1 else [large[0], large[3]]]}[sn]
                for small in picks:
                    yield sorted(small), large


def _cell(i1, i2):
    dt1, dt2 = DTYPES[i1], DTYPES[i2]
    for small, large in _cases(dt1, dt2):
        for a, b, da, db in ((small, large, dt1, dt2), (large, small, dt1, dt2)):
            scratchdir.count_cell(f'{da}x{db} {len(a)}v{len(b)} top={max(a + b) if a + b else 0}')
            A, B = np.array(a, dtype=da), np.array(b, dtype=db)
            want = J.py_dist(a, b)
            try:
                d = gmetric.jaccarddist(A, B)
                s = gmetric.jaccard(A, B)
            except Exception as e:   # noqa
                return False, {'a': a[:4] + ['...'] * (len(a) > 4), 'len(a)': len(a), 'a_dtype': da, 'b': b[:4] + ['...'] * (len(b) > 4), 'len(b)': len(b), 'b_dtype': db, 'why': f'raised {type(e).__name__}: {e}'}
            ok_d = np.float32(d).tobytes() == np.float32(want).tobytes()
            ok_s = float(s) in (float(np.float32(1) - want), 1.0 - float(want))
            if not (ok_d and ok_s):
                return False, {'a': a if len(a) < 5 else [a[0], '...', a[-1]], 'len(a)': len(a), 'a_dtype': da, 'b': b if len(b) < 5 else [b[0], '...', b[-1]], 'len(b)': len(b), 'b_dtype': db,
                               'jaccarddist': repr(d), 'jaccard': repr(s), 'exact distance rounded once': repr(want)}
    return True, None


def _cell_history(i1, i2):
    """Context-freeness: two buffers allocated once and refilled in place between calls (a caller's work buffers), and fresh arrays of
    the same shape in between; every call must return the value for the *current* contents, whichever of the two functions is called first."""
    dt1, dt2 = DTYPES[i1], DTYPES[i2]
    top = min(int(np.iinfo(dt1).max), int(np.iinfo(dt2).max))
    for n, m in ((6, 9), (1, 1), (3, 3), (9, 2)):
        A, B = np.zeros(n, dtype=dt1), np.zeros(m, dtype=dt2)
        fills = [(list(range(1, n + 1)), list(range(1, m + 1))),                          # nested
                 (list(range(1, n + 1)), list(range(n + 1, n + m + 1))),                    # disjoint
                 (list(range(top - n + 1, top + 1)), list(range(top - m + 1, top + 1))),    # nested at the top of the range
                 (list(range(2, 2 * n + 1, 2)), list(range(3, 3 * m + 1, 3))),              # partial overlap
                 (list(range(1, n + 1)), list(range(1, m + 1)))]                            # first contents again
        for step, (a, b) in enumerate(fills):
            scratchdir.count_cell(f'history {dt1}x{dt2} {n}v{m} step {step}')
            A[:] = a
            B[:] = b
            want = J.py_dist(a, b)
            calls = (gmetric.jaccarddist, gmetric.jaccard) if step % 2 == 0 else (gmetric.jaccard, gmetric.jaccarddist)
            got = {}
            for f in calls:
                try:
                    got[f.__name__] = f(A, B)
                except Exception as e:   # noqa
                    return False, {'history': f'buffers of {n} {dt1} / {m} {dt2} refilled in place, step {step}', 'a': a, 'b': b, 'why': f'{f.__name__} raised {type(e).__name__}: {e}'}
            d, s = got['jaccarddist'], got['jaccard']
            ok_d = np.float32(d).tobytes() == np.float32(want).tobytes()
            ok_s = float(s) in (float(np.float32(1) - want), 1.0 - float(want))
            # the same contents in freshly allocated arrays must give the same answer - asked only after the last fill, so that no call on
            # another pair of arrays comes between two calls on the same buffers
            ok_f = step < len(fills) - 1 or np.float32(gmetric.jaccarddist(np.array(a, dtype=dt1), np.array(b, dtype=dt2))).tobytes() == np.float32(want).tobytes()
            if not (ok_d and ok_s and ok_f):
                return False, {'history': f'buffers of {n} {dt1} / {m} {dt2} allocated once and refilled in place; this is fill number {step} (earlier fills: {fills[:step]})', 'a': a, 'b': b,
                               'jaccarddist': repr(d), 'jaccard': repr(s), 'fresh arrays ok': ok_f, 'exact distance rounded once': repr(want)}
    return True, None


def _run_history(i1, i2):
    a = (fork_int(i1, 0, len(DTYPES) - 1), fork_int(i2, 0, len(DTYPES) - 1))
    with NoTracing():
        return _cell_history(*a)


def _c02_history(i1: int, i2: int) -> bool:
    """
    pre: 0 <= i1 < len(DTYPES) and 0 <= i2 < len(DTYPES)
    post: _
    """
    return _run_history(i1, i2)[0]


def explain_c02_history(i1, i2):
    return _run_history(i1, i2)[1]


def _run(i1, i2):
    a = (fork_int(i1, 0, len(DTYPES) - 1), fork_int(i2, 0, len(DTYPES) - 1))
    with NoTracing():
        return _cell(*a)


def _c02_unbalanced(i1: int, i2: int) -> bool:
    """
    pre: 0 <= i1 < len(DTYPES) and 0 <= i2 < len(DTYPES)
    post: _
    """
    return _run(i1, i2)[0]


def explain_c02_unbalanced(i1, i2):
    return _run(i1, i2)[1]
