"""Engine X runner: one `crosshair check` subprocess per condition (harness function), verdict parsing, concrete
replay of counterexamples in a fresh plain interpreter."""
import os
import re
import sys
import json
import time
import subprocess
import importlib.util
from concurrent.futures import ThreadPoolExecutor

VERIF = os.path.dirname(os.path.dirname(os.path.abspath(__file__)))
PY = os.path.join(VERIF, '.venv/bin/python') if os.path.exists(os.path.join(VERIF, '.venv/bin/python')) else '/verif/.venv/bin/python'
CROSSHAIR = os.path.join(os.path.dirname(PY), 'crosshair')

HOLDS, VIOLATED, INCONCLUSIVE = 'holds', 'violated', 'inconclusive'


def _env(params):
    env = dict(os.environ)
    env['PYTHONPATH'] = f'{VERIF}:{os.environ.get("VERIF_REPO", "/repo")}/src'
    env['XH_PARAMS'] = json.dumps(params or {})
    env['PYTHONDONTWRITEBYTECODE'] = '1'
    env['PYTHONHASHSEED'] = '0'
    return env


def func_line(path, fname):
    src = open(path).read().split('\n')
    for i, l in enumerate(src):
        if re.match(rf'^def {re.escape(fname)}\(', l):
            return i + 2    # a line inside the def
    raise KeyError(fname)


def check_condition(path, fname, params=None, timeout=60, per_path=None, label=None, unblock=None):
    """Returns result dict for one CrossHair condition."""
    t0 = time.time()
    line = func_line(path, fname)
    cmd = [CROSSHAIR, 'check']
    if unblock:
        # side effects the harness is allowed to perform (e.g. opening its own read-only scratch database files); the list is
        # terminated by the next option
        cmd += ['--unblock'] + list(unblock)
    cmd += ['--report_all', '--per_condition_timeout', str(timeout)]
    if per_path:
        cmd += ['--per_path_timeout', str(per_path)]
    cmd.append(f'{path}:{line}')
    name = label or f'{fname} {json.dumps(params, sort_keys=True) if params else ""}'.strip()
    env = _env(params)
    # harnesses that enumerate concrete cells append one line per executed cell to this file (measured coverage for the evidence)
    import hashlib
    cfile = os.path.join(VERIF, 'scratch', 'cells_' + hashlib.sha1(f'{path}:{fname}:{json.dumps(params, sort_keys=True)}:{os.getpid()}'.encode()).hexdigest()[:16] + '.txt')
    os.makedirs(os.path.dirname(cfile), exist_ok=True)
    if os.path.exists(cfile):
        os.remove(cfile)
    env['XH_COUNT_FILE'] = cfile
    try:
        p = subprocess.run(cmd, env=env, capture_output=True, text=True, timeout=timeout * 3 + 120, cwd=VERIF)
        out = p.stdout + p.stderr
    except subprocess.TimeoutExpired as e:
        return {'name': name, 'status': INCONCLUSIVE, 'error': 'crosshair process exceeded its wall limit', 'wall_s': round(time.time() - t0, 2),
                'queries': [{'q': fname, 'result': 'timeout', 'time_s': round(time.time() - t0, 2)}], 'params': params, 'fname': fname}
    dt = round(time.time() - t0, 2)
    res = {'name': name, 'wall_s': dt, 'params': params, 'fname': fname, 'raw': out.strip()[-1500:]}
    if os.path.exists(cfile):
        try:
            with open(cfile) as f:
                keys = [l.strip() for l in f if l.strip()]
            res['cells_executed'], res['cells_distinct'] = len(keys), len(set(keys))
            if keys:
                res['cell_sample'] = keys[len(keys) // 2][:300]
        finally:
            os.remove(cfile)
    verdict = 'unknown'
    msg = ''
    for l in out.splitlines():
        m = re.match(r'^.*?:\d+: (info|error): (.*)$', l)
        if not m:
            continue
        kind, text = m.groups()
        if kind == 'info' and text.startswith('Confirmed over all paths'):
            verdict = 'confirmed'
        elif kind == 'info' and text.startswith('Not confirmed'):
            verdict = 'not-confirmed'
        elif kind == 'info' and text.startswith('Unable to meet precondition'):
            verdict = 'no-precondition'
        elif kind == 'error':
            verdict = 'counterexample'
            msg = text
            break
    res['queries'] = [{'q': fname, 'result': verdict, 'time_s': dt}]
    if verdict == 'confirmed':
        res['status'] = HOLDS
    elif verdict == 'counterexample':
        res['status'] = VIOLATED
        res['message'] = msg
        m = re.search(r'when calling (.*?)(?: \(which returns .*\))?$', msg)
        res['call'] = m.group(1) if m else None
    else:
        res['status'] = INCONCLUSIVE
        res['error'] = f'crosshair: {verdict}: {out.strip()[-300:]}'
    return res


def replay_call(path, call_text, params=None, timeout=120):
    """Evaluate the counterexample call concretely in a fresh plain interpreter.
    Returns (reproduced, detail).  reproduced means: the harness function returned a falsy value or raised."""
    code = (
        "import sys, json, importlib.util\n"
        "spec = importlib.util.spec_from_file_location('xh_harness', sys.argv[1])\n"
        "m = importlib.util.module_from_spec(spec); sys.modules['xh_harness'] = m; spec.loader.exec_module(m)\n"
        "ns = dict(vars(m))\n"
        "try:\n"
        "    r = eval(sys.argv[2], ns)\n"
        "    expl = None\n"
        "    fn = sys.argv[2].split('(')[0]\n"
        "    if ('explain_' + fn.lstrip('_')) in ns:\n"
        "        try:\n"
        "            expl = eval('explain_' + fn.lstrip('_') + sys.argv[2][len(fn):], ns)\n"
        "        except Exception as e:\n"
        "            expl = 'explain failed: %r' % (e,)\n"
        "    print(json.dumps({'returned': repr(r), 'ok': bool(r), 'explain': expl}, default=str))\n"
        "except Exception as e:\n"
        "    import traceback\n"
        "    print(json.dumps({'returned': None, 'ok': False, 'exception': repr(e), 'trace': traceback.format_exc()[-800:]}))\n"
    )
    try:
        p = subprocess.run([PY, '-c', code, path, call_text], env=_env(params), capture_output=True, text=True, timeout=timeout, cwd=VERIF)
    except subprocess.TimeoutExpired:
        return False, {'error': 'replay timed out'}
    last = [l for l in p.stdout.splitlines() if l.startswith('{')]
    if not last:
        return False, {'error': 'replay produced no result', 'stderr': p.stderr[-500:]}
    d = json.loads(last[-1])
    return (not d['ok']), d


def witness(path, fname, params=None, timeout=60):
    """Reachability twin: `fname` must be a harness whose postcondition is False at the point of interest, so a
    counterexample is expected.  Returns result dict with status HOLDS when the witness is found."""
    r = check_condition(path, fname, params, timeout)
    if r['status'] == VIOLATED:
        return {'reach': 'sat', 'witness_call': r.get('call'), 'time_s': r['wall_s']}
    return {'reach': 'unsat' if r['status'] == HOLDS else 'unknown', 'time_s': r['wall_s'], 'raw': r.get('raw', '')[-300:]}


def run_many(jobs, workers=16):
    """jobs: list of dicts(path, fname, params, timeout, twin=<fname or None>, label).  Parallel; returns results in order."""
    def one(j):
        r = check_condition(j['path'], j['fname'], j.get('params'), j.get('timeout', 60), j.get('per_path'), j.get('label'), j.get('unblock'))
        r['bounds'] = j.get('bounds', j.get('params'))
        if j.get('twin') and r['status'] == HOLDS:
            w = witness(j['path'], j['twin'], j.get('params'), j.get('twin_timeout', 30))
            r['queries'].append({'q': j['twin'], 'result': 'witness ' + w['reach'], 'time_s': w['time_s']})
            r['reach'] = w['reach']
            if w.get('witness_call'):
                r['sample'] = w['witness_call'][:400]
            if w['reach'] != 'sat':
                r['status'] = INCONCLUSIVE
                r['error'] = f'reachability twin {j["twin"]} found no witness ({w["reach"]}): vacuous or undecided harness'
        elif r['status'] == HOLDS:
            # no separate twin: CrossHair reports 'Unable to meet precondition' (-> inconclusive) when no path satisfies the
            # preconditions, so a confirmed condition has executed the real code on at least one path
            r['reach'] = 'sat'
        return r
    with ThreadPoolExecutor(max_workers=workers) as ex:
        return list(ex.map(one, jobs))
