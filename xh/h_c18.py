"""C18 harness (engine X): histories of read-side library calls and ORM edits against a real database directory (a private
copy of the repository's test database: SQLite genome file + HDF5 signature file).  The solver enumerates the history (which
way the database is opened, which operation at every step - fork_int); each history runs natively on the real files.
Observed after EVERY step and after closing: sha256 of both files is unchanged; no data-modifying statement has been sent to
the SQLite engine of the session the library hands out (so pending ORM edits are never flushed, also not by autoflush);
commit() is refused with an exception."""
import os
import json
import shutil
import hashlib
import types

import numpy as np
import sqlalchemy
from sqlalchemy import event

import gambit.cli.common as ccommon
from gambit.db.refdb import ReferenceDatabase
from gambit.db.models import Taxon, AnnotatedGenome, Genome
from gambit.sigs.base import load_signatures
from gambit.query import query, QueryParams
from gambit.metric import jaccarddist_matrix, jaccarddist_pairwise
from gambit.cluster import hclust
from xh.taxo import fork_int, NoTracing

P = json.loads(os.environ.get('XH_PARAMS', '{}') or '{}')
L = int(P.get('len', 3))
REPO = os.environ.get('VERIF_REPO', '/repo')
SRC = os.path.join(REPO, 'tests', 'data', 'testdb_210818')
from xh import scratchdir
_ROOT = scratchdir.fresh('c18_db')
DBDIR = os.path.join(_ROOT, 'db')
GFILE = os.path.join(DBDIR, 'ref-genomes.gdb')
SFILE = os.path.join(DBDIR, 'ref-signatures.gs')


def _sha(p):
    h = hashlib.sha256()
    with open(p, 'rb') as f:
        for blk in iter(lambda: f.read(1 << 20), b''):
            h.update(blk)
    return h.hexdigest()


JOURNAL = ['as shipped (rollback journal)', 'WAL'][int(P.get('wal', 0))]


def _setup():
    shutil.rmtree(DBDIR, ignore_errors=True)
    os.makedirs(DBDIR)
    shutil.copy(os.path.join(SRC, 'ref-genomes.gdb'), GFILE)
    shutil.copy(os.path.join(SRC, 'ref-signatures.gs'), SFILE)
    if int(P.get('wal', 0)):
        # the same database as a file in write-ahead-log mode (a mode recorded in the file header), cleanly closed
        import sqlite3
        con = sqlite3.connect(GFILE)
        con.execute('PRAGMA journal_mode=WAL')
        con.commit()
        con.close()
    return _sha(GFILE), _sha(SFILE)


H0 = _setup()
with load_signatures(os.path.join(SRC, 'queries', 'query-signatures.gs')) as _q:
    QUERIES = [np.array(_q[i]) for i in range(3)]
    QSPEC = _q.kmerspec
QSIGS = None

OPS = ['query', 'add-taxon+flush', 'edit-genome+flush', 'edit+autoflush-query', 'commit', 'delete+flush', 'inspect-signatures', 'distances+tree', 'failing-call',
       'edit-taxon-threshold', 'rollback', 'reopen', 'direct-sql-write-abandoned']
WRITE_WORDS = ('INSERT', 'UPDATE', 'DELETE', 'REPLACE', 'CREATE', 'DROP', 'ALTER', 'VACUUM', 'REINDEX')


OTHER = os.path.join(_ROOT, 'other.sqlite')


def _prehistory(pre):
    """What the process did before it opened the reference database: nothing, or it asked the library for a WRITABLE session on an
    unrelated database file and used it (legitimate: the library offers readonly=False for building databases)."""
    if pre == 0:
        return
    from gambit.db.sqla import file_sessionmaker
    from gambit.db.models import Base
    import sqlalchemy.orm
    if pre == 1:
        mk = file_sessionmaker(OTHER, readonly=False)
    else:
        mk = file_sessionmaker(OTHER, cls=sqlalchemy.orm.Session)
    s = mk()
    try:
        Base.metadata.create_all(s.get_bind())
        from gambit.db.models import ReferenceGenomeSet
        s.add(ReferenceGenomeSet(key=f'other/{os.getpid()}', version='1.0', name='elsewhere'))
        s.flush()
        s.rollback()
    finally:
        s.close()
        s.get_bind().dispose()


class Ctx:
    def __init__(self, opener, pre=0):
        self.opener = opener
        self.dml = []
        _prehistory(pre)
        self.open()

    def open(self):
        if self.opener == 0:
            self.db = ReferenceDatabase.load_from_dir(DBDIR)
        else:
            root = types.SimpleNamespace(params={'db_path': DBDIR})
            self.cli = ccommon.CLIContext(root)
            self.db = self.cli.get_database()
        self.session = sqlalchemy.orm.object_session(self.db.genomeset)
        eng = self.session.get_bind()
        event.listen(eng, 'before_cursor_execute', self._rec)
        self.engine = eng

    def _rec(self, conn, cursor, statement, parameters, context, executemany):
        if statement.lstrip().upper().startswith(WRITE_WORDS):
            self.dml.append(statement.strip()[:80])

    def close(self):
        try:
            self.session.close()
        finally:
            try:
                self.db.signatures.close()
            except Exception:   # noqa
                pass
            self.engine.dispose()


def _step(c, op, k):
    """Runs one operation; returns a complaint or None."""
    s = c.session
    if op == 0:
        from gambit.sigs.base import SignatureList
        res = query(c.db, SignatureList(QUERIES[:2], QSPEC), QueryParams(), progress=None)
        if len(res.items) != 2:
            return 'query returned a wrong number of items'
    elif op == 1:
        s.add(Taxon(key=f'verif/new{k}', name=f'new taxon {k}', genome_set=c.db.genomeset, distance_threshold=0.5))
        s.flush()
    elif op == 2:
        g = c.db.genomes[k % len(c.db.genomes)].genome
        g.description = f'edited {k}'
        s.flush([g])          # flushing named objects is a flush all the same
    elif op == 3:
        c.db.genomes[(k + 1) % len(c.db.genomes)].organism = f'organism {k}'
        s.query(Taxon).filter(Taxon.name.like('%a%')).count()       # a query is where autoflush would send pending edits
    elif op == 4:
        try:
            s.commit()
        except Exception:   # noqa
            return None
        return 'commit() was accepted by the session the library hands out'
    elif op == 5:
        s.delete(c.db.genomes[-1])
        s.flush()
    elif op == 6:
        sigs = c.db.signatures
        _ = sigs[0], sigs[-1], sigs[1:4], sigs[[2, 0]], sigs.sizes(), sigs.sizeof(0), list(sigs.ids[:3]), sigs.meta, sigs.kmerspec, len(sigs)
    elif op == 7:
        d = jaccarddist_matrix(QUERIES, c.db.signatures[:6])
        sq = jaccarddist_pairwise(c.db.signatures[:5])
        hclust(sq)
        if d.shape != (3, 6):
            return 'distance matrix shape'
    elif op == 8:
        for bad in (lambda: c.db.signatures[10 ** 6], lambda: query(c.db, [np.array([1, 2], dtype='u8')], QueryParams(report_closest=0), progress=None),
                    lambda: s.query(Taxon).filter_by(nosuchcolumn=1).all()):
            try:
                bad()
            except Exception:   # noqa
                pass
    elif op == 9:
        t = s.query(Taxon).filter(Taxon.distance_threshold.isnot(None)).first()
        t.distance_threshold = 0.123
        t.report = not t.report
        s.flush()
    elif op == 10:
        s.rollback()
    elif op == 11:
        c.close()
        c.open()
    elif op == 12:
        # A statement sent past the unit of work (bulk UPDATE through Session.execute / Query.update / the raw connection) and never
        # committed.  It legitimately reaches the engine inside the session's transaction, so it is exempt from the statement monitor;
        # what the property demands is that nothing of it reaches the files - now, after a rollback, after closing.
        import sqlalchemy as sa
        before = len(c.dml)
        try:
            if k % 3 == 0:
                s.execute(sa.update(Genome).values(description=f'bulk {k}'))
            elif k % 3 == 1:
                s.query(Taxon).update({Taxon.name: f'bulk taxon {k}'}, synchronize_session=False)
            else:
                s.connection().execute(sa.text('UPDATE genomes SET description = :d'), dict(d=f'raw {k}'))
        except Exception:   # noqa  (an implementation that refuses such statements is fine)
            pass
        del c.dml[before:]
    return None


def _history(opener, ops, pre=0):
    scratchdir.count_cell(f'history pre={pre} opener={opener} ops={list(ops)}')
    c = Ctx(opener, pre)
    try:
        for k, op in enumerate(ops):
            why = _step(c, op, k)
            if why:
                return False, f'step {k} ({OPS[op]}): {why}'
            now = (_sha(GFILE), _sha(SFILE))
            if now != H0:
                return False, f'after step {k} ({OPS[op]}): ' + ('genome file' if now[0] != H0[0] else 'signature file') + ' changed on disk'
            if c.dml:
                return False, f'after step {k} ({OPS[op]}): data-modifying SQL was sent to the database: {c.dml[:2]}'
    finally:
        c.close()
    now = (_sha(GFILE), _sha(SFILE))
    if now != H0:
        _setup()
        return False, 'after closing: ' + ('genome file' if now[0] != H0[0] else 'signature file') + ' changed on disk'
    if os.path.exists(OTHER):
        os.remove(OTHER)
    left = sorted(f for f in os.listdir(DBDIR) if not (int(P.get('wal', 0)) and f.endswith(('-wal', '-shm'))))     # SQLite's own WAL side files are not the database files
    if left != ['ref-genomes.gdb', 'ref-signatures.gs']:
        return False, f'extra files left in the database directory: {left}'
    return True, None


PRE = int(P.get('pre', 0))


def _run(opener, o0, o1, o2, o3):
    oc = fork_int(opener, 0, 1)
    ops = [fork_int(o, 0, len(OPS) - 1) for o in (o0, o1, o2, o3)[:L]]
    with NoTracing():
        ok, why = _history(oc, ops, PRE)
        if not ok:
            _setup()         # start the next history from pristine files
        return ok, why


def _c18_history(opener: int, o0: int, o1: int, o2: int, o3: int) -> bool:
    """
    pre: 0 <= opener <= 1 and all(0 <= o < len(OPS) for o in (o0, o1, o2, o3)) and all(o == 0 for o in (o0, o1, o2, o3)[L:])
    pre: ('opener' not in P or opener == P['opener']) and ('o0' not in P or o0 == P['o0'])
    post: _
    """
    return _run(opener, o0, o1, o2, o3)[0]


def explain_c18_history(opener, o0, o1, o2, o3):
    return {'genome file journal mode': JOURNAL, 'before_opening': ['nothing', 'a writable session (readonly=False) on an unrelated file was used', 'a writable session (cls=Session) on an unrelated file was used'][PRE], 'opened_by': ['ReferenceDatabase.load_from_dir', 'CLIContext.get_database'][opener], 'history': [OPS[o] for o in (o0, o1, o2, o3)[:L]], 'why': _run(opener, o0, o1, o2, o3)[1]}
