"""C06 harness (engine X): the real file path - SequenceFile(..., 'fasta', 'auto').parse() -> open_compressed -> _open_auto ->
guess_compression -> gzip / text layer -> Bio.SeqIO -> calc_file_signature - on genome files whose *form* varies while the
biological content stays the same.  File contents are generated per cell and written to a real scratch file of the chosen
name, so the real opening, decompression, text decoding and FASTA parsing run, by whatever route the code takes.  The solver enumerates the
form dimensions (fork_int); each cell runs natively."""
import os
import io
import json
import gzip
import itertools
import numpy as np

import gambit.util.io as gio
from gambit.seq import SequenceFile
from gambit.sigs.calc import calc_file_signature, calc_signature
from gambit.kmers import KmerSpec
from gambit._cython.kmers import revcomp
from xh.taxo import fork_int, NoTracing

P = json.loads(os.environ.get('XH_PARAMS', '{}') or '{}')
KS = KmerSpec(4, 'AT')
# small genomes of three contigs: prefix occurrences on both strands, flush with contig ends, mixed case, N runs,
# a contig shorter than prefix + k, and a k-mer that would only exist across a contig boundary (AT | GCAC)
GENOMES = [
    [b'ATGCACttatgNNATCCGAgcat', b'GCACATTTAAT', b'AT'],
    [b'cccATaaaaTTTTATggggnATACGT', b'ACGTAT', b'TTGGCCAATNNNNatCAGT'],
    # contigs that are exactly prefix + k long and carry a k-mer found nowhere else (forward / reverse strand)
    [b'ATGGCA', b'ttccAT', b'ccgcgccNNat'],
]
PERMS = list(itertools.permutations(range(3)))
WIDTHS = [1, 7, 60, 10 ** 6]


def canonical(g):
    return calc_signature(KS, GENOMES[g])


def union_of_contigs(g):
    out = set()
    for c in GENOMES[g]:
        out |= set(int(x) for x in calc_signature(KS, c))
    return sorted(out)


def render(contigs, width, crlf, final_newline, headers=True):
    eol = b'\r\n' if crlf else b'\n'
    lines = []
    for i, c in enumerate(contigs):
        lines.append(b'>contig%d some description' % (i + 1))
        for j in range(0, max(len(c), 1), width):
            lines.append(c[j:j + width])
    data = eol.join(lines)
    if final_newline:
        data += eol
    return data


def compress(data, comp):
    if comp == 0:
        return data
    if comp == 1:
        return gzip.compress(data)
    # multi-member gzip (cat a.gz b.gz / bgzip): split at an arbitrary byte, also in the middle of a record
    cut = max(1, len(data) // 3)
    return gzip.compress(data[:cut]) + gzip.compress(data[cut:2 * cut]) + gzip.compress(data[2 * cut:])


from xh import scratchdir
_FDIR = scratchdir.fresh('c06_files')


def file_signature(content, name):
    """The real path: a real file of that name and content, opened by whatever means the code under test chooses."""
    path = os.path.join(_FDIR, name)
    with open(path, 'wb') as f:
        f.write(content)
    try:
        return calc_file_signature(KS, SequenceFile(path, 'fasta', 'auto'))
    finally:
        os.remove(path)


def _same(sig, g):
    want = canonical(g)
    return sig.dtype == want.dtype and np.array_equal(sig, want) and [int(x) for x in sig] == union_of_contigs(g)


def _bio_concrete(g, orient, perm, case):
    contigs = []
    for idx in PERMS[perm]:
        c = GENOMES[g][idx]
        if (orient >> idx) & 1:
            c = revcomp(c)
        if case == 1:
            c = c.upper()
        elif case == 2:
            c = c.lower()
        elif case == 3:
            c = bytes((ch ^ 0x20) if (i % 2 and bytes([ch]).isalpha()) else ch for i, ch in enumerate(c))
        contigs.append(c)
    sig = file_signature(render(contigs, 60, False, True), 'genome.fasta')
    return _same(sig, g), f'contigs {contigs} -> {[int(x) for x in sig]}, expected {[int(x) for x in canonical(g)]}'


def _c06_biology(g: int, orient: int, perm: int, case: int) -> bool:
    """
    Orientation of every contig, contig order and letter case do not change the file's signature; it equals the union of the
    per-contig signatures.
    pre: 0 <= g < len(GENOMES) and 0 <= orient < 8 and 0 <= perm < len(PERMS) and 0 <= case <= 3
    post: _
    """
    a = (fork_int(g, 0, len(GENOMES) - 1), fork_int(orient, 0, 7), fork_int(perm, 0, len(PERMS) - 1), fork_int(case, 0, 3))
    with NoTracing():
        return _bio_concrete(*a)[0]


def explain_c06_biology(g, orient, perm, case):
    return {'genome': g, 'reversed_contigs(bitmask)': orient, 'order': PERMS[perm], 'case': case, 'why': _bio_concrete(g, orient, perm, case)[1]}


NAMES = ['genome.fasta', 'genome.fasta.gz', 'genome', 'genome.gz.txt']


def _form_concrete(g, width_i, crlf, final_newline, comp, name_i, orient):
    contigs = [revcomp(c) if (orient >> i) & 1 else c for i, c in enumerate(GENOMES[g])]
    data = compress(render(contigs, WIDTHS[width_i], crlf, final_newline), comp)
    sig = file_signature(data, NAMES[name_i])
    return _same(sig, g), f'width {WIDTHS[width_i]} crlf {crlf} final newline {final_newline} compression {["none", "gzip", "multi-member gzip"][comp]} name {NAMES[name_i]} -> {[int(x) for x in sig]}, expected {[int(x) for x in canonical(g)]}'


def _c06_form(g: int, width_i: int, crlf: bool, final_newline: bool, comp: int, name_i: int, orient: int) -> bool:
    """
    Line width, line endings, final newline, gzip compression (recognised from content, whatever the name) do not change it.
    pre: 0 <= g < len(GENOMES) and 0 <= width_i < len(WIDTHS) and 0 <= comp <= 2 and 0 <= name_i < len(NAMES) and 0 <= orient < 8
    pre: orient in (0, 5)
    post: _
    """
    a = (fork_int(g, 0, len(GENOMES) - 1), fork_int(width_i, 0, len(WIDTHS) - 1), bool(crlf), bool(final_newline), fork_int(comp, 0, 2), fork_int(name_i, 0, len(NAMES) - 1),
         fork_int(orient, 0, 7))
    with NoTracing():
        return _form_concrete(*a)[0]


def explain_c06_form(g, width_i, crlf, final_newline, comp, name_i, orient):
    return {'why': _form_concrete(g, width_i, crlf, final_newline, comp, name_i, orient)[1]}
