"""C05 harness (engine X): the real gambit.metric.jaccarddist_array / jaccarddist_matrix / jaccarddist_pairwise,
gambit.util.misc.chunk_slices and the containers' indexing, with the two Cython entry points replaced by a stub that
returns a tag identifying (query, reference) - so the data flow "which pair ended up in which cell" is observable.
Symbolic (case-split by the solver, then run natively): sizes, chunk size, index selection with repeats, container kind,
caller-supplied output buffer, flat / square."""
import os
import json
import numpy as np

import gambit.metric as gm
from gambit.sigs.base import SignatureArray, SignatureList
from gambit.kmers import KmerSpec
from gambit.util.misc import chunk_slices
from xh.taxo import fork_int, NoTracing

P = json.loads(os.environ.get('XH_PARAMS', '{}') or '{}')
KS = KmerSpec(9, 'AT')
MAXQ, MAXR = int(P.get('maxq', 3)), int(P.get('maxr', 4))
MAXSEL = int(P.get('maxsel', 3))      # longest index selection


REG = {}


def sig(i, dtype='u4'):
    """signature number i: first element is its identity, length varies (one has a single element).  64-bit ones end in a value
    that fits no narrower type, so that any silent narrowing changes their content."""
    vals = [100 + i] + list(range(200 + i, 200 + i + (i % 3)))
    if np.dtype(dtype).itemsize == 8:
        vals.append(2 ** 40 + i)
    a = np.array(vals, dtype=dtype)
    REG[(i, np.dtype(dtype).itemsize == 8)] = a.astype('u8')
    return a


def _ident(a):
    """identity of a signature as the kernel sees it; None if its content is not what was handed to the library"""
    i = int(a[0]) - 100
    for wide in (False, True):
        ref = REG.get((i, wide))
        if ref is not None and len(ref) == len(a) and np.array_equal(np.asarray(a).astype('u8'), ref):
            return i
    return None


def tag(q, r):
    iq, ir = _ident(q), _ident(r)
    if iq is None or ir is None:
        return np.float32(-7777)          # the kernel was given something else than one of the caller's signatures
    return np.float32(iq * 16 + ir + 1)


class CStub:
    """Stands in for gambit._cython.metric: same call signatures, opaque tagged result."""
    calls = 0

    @staticmethod
    def jaccarddist(a, b):
        CStub.calls += 1
        return tag(a, b)

    @staticmethod
    def jaccard(a, b):
        return np.float32(1) - tag(a, b)

    @staticmethod
    def _jaccarddist_parallel(query, values, bounds, out):
        CStub.calls += 1
        assert bounds.dtype == np.intp and out.dtype == np.float32 and len(out) == len(bounds) - 1
        for i in range(len(bounds) - 1):
            out[i] = tag(query, values[bounds[i]:bounds[i + 1]])


def make_out(shape, layout):
    """Caller-supplied output buffer: 0 none, 1 C-contiguous, 2 Fortran-ordered / strided view (not C-contiguous)."""
    if layout == 0:
        return None
    if layout == 1:
        return np.full(shape, -1, dtype=np.float32)
    if len(shape) == 2:
        return np.full(shape, -1, dtype=np.float32, order='F') if shape[0] > 1 and shape[1] > 1 else np.full((shape[0] + 1, shape[1] + 1), -1, dtype=np.float32)[:shape[0], :shape[1]]
    return np.full(2 * shape[0] + 1, -1, dtype=np.float32)[1:2 * shape[0] + 1:2]


_H5_CACHE = {}


def h5_container(sigs):
    """A real signature file on disk (HDF5) holding `sigs`; files are written at import time (see below)."""
    from gambit.sigs.base import load_signatures
    key = tuple(int(s[0]) for s in sigs)
    if key not in _H5_CACHE:
        _H5_CACHE[key] = load_signatures(_h5_path(key))
    return _H5_CACHE[key]


def _h5_path(key):
    return os.path.join(os.path.dirname(os.path.dirname(os.path.abspath(__file__))), 'scratch', 'c05_' + '_'.join(map(str, key)) + '.gs')


def _prepare_h5():
    from gambit.sigs.base import dump_signatures, AnnotatedSignatures
    os.makedirs(os.path.dirname(_h5_path((0,))), exist_ok=True)
    for first, count in [(8, n) for n in range(1, MAXR + 1)] + [(0, n) for n in range(1, MAXR + 1)]:
        sigs = [sig(first + j) for j in range(count)]
        key = tuple(int(s[0]) for s in sigs)
        p = _h5_path(key)
        if not os.path.exists(p):
            tmp = p + f'.{os.getpid()}.tmp'
            dump_signatures(tmp, AnnotatedSignatures(SignatureArray(sigs, KS), ids=[f'id{j}' for j in range(count)]))
            os.replace(tmp, p)


def container(kind, sigs):
    if kind == 3:
        return h5_container(sigs)
    if kind == 0:
        return SignatureArray(sigs, KS)
    if kind == 1:
        return SignatureList(sigs, KS)
    return list(sigs)


if P.get('kind') == 3:
    _prepare_h5()


def _matrix_concrete(nq, nr, chunk, kind, nsel, s0, s1, s2, own_out, qkind):
    queries = [sig(i) for i in range(nq)]
    # plain Python lists may hold signatures of different integer widths (narrow first, wide later)
    refs_l = [sig(8 + j, 'u4' if kind != 2 else ['u2', 'u8', 'u4'][j % 3]) for j in range(nr)]
    refs = container(kind, refs_l)
    qs = container(qkind, queries)
    sel = None if nsel == 0 else [s0, s1, s2][:nsel - 1] if nsel > 1 else []
    # nsel: 0 = no selection, 1 = empty selection, 2..4 = 1..3 indices (repeats / any order)
    if sel is not None and any(s >= nr for s in sel):
        return True, 'selection out of range (skipped)'
    ncols = nr if sel is None else len(sel)
    out = make_out((nq, ncols), own_out)
    saved = gm._cmetric
    gm._cmetric = CStub
    try:
        res = gm.jaccarddist_matrix(qs, refs, ref_indices=sel, out=out, chunksize=chunk if chunk else None)
    finally:
        gm._cmetric = saved
    if own_out and res is not out:
        return False, 'caller-supplied buffer not returned'
    if res.shape != (nq, ncols) or res.dtype != np.float32:
        return False, f'shape/dtype {res.shape} {res.dtype}'
    cols = list(range(nr)) if sel is None else sel
    for i in range(nq):
        for c, j in enumerate(cols):
            if res[i, c] != tag(queries[i], refs_l[j]):
                return False, f'cell ({i},{c}) holds {res[i, c]} instead of d(query {i}, ref {j}) = {tag(queries[i], refs_l[j])}'
    return True, None


def _matrix_run(nq, nr, chunk, kind, nsel, s0, s1, s2, own_out, qkind):
    a = [fork_int(nq, 1, MAXQ), fork_int(nr, 1, MAXR), fork_int(chunk, 0, MAXR + 1), fork_int(kind, 0, 3), fork_int(nsel, 0, 4),
         fork_int(s0, 0, MAXR - 1), fork_int(s1, 0, MAXR - 1), fork_int(s2, 0, MAXR - 1)]
    oo = fork_int(own_out, 0, 2)
    with NoTracing():
        return _matrix_concrete(*a, oo, 2 if qkind else 0)


def _c05_matrix(nq: int, nr: int, chunk: int, kind: int, nsel: int, s0: int, s1: int, s2: int, own_out: int, qkind: bool) -> bool:
    """
    pre: 1 <= nq <= MAXQ and 1 <= nr <= MAXR and 0 <= chunk <= MAXR + 1 and 0 <= kind <= 3 and 0 <= nsel <= 4 and 0 <= own_out <= 2 and (kind < 3 or P.get('kind') == 3)
    pre: all(0 <= s < MAXR for s in (s0, s1, s2)) and (nsel > 1 or s0 == 0) and (nsel > 2 or s1 == 0) and (nsel > 3 or s2 == 0)
    pre: ('kind' not in P or kind == P['kind']) and nsel <= MAXSEL + 1
    pre: 'longsel' not in P or (nsel == MAXSEL + 1 and nq == 1 and nr == MAXR)
    post: _
    """
    return _matrix_run(nq, nr, chunk, kind, nsel, s0, s1, s2, own_out, qkind)[0]


def explain_c05_matrix(nq, nr, chunk, kind, nsel, s0, s1, s2, own_out, qkind):
    return {'queries': nq, 'refs': nr, 'chunksize': chunk or None, 'container': ['SignatureArray', 'SignatureList', 'list', 'HDF5Signatures'][kind],
            'ref_indices': None if nsel == 0 else [s0, s1, s2][:nsel - 1], 'out(0 none,1 C-contiguous,2 non-contiguous)': own_out, 'why': _matrix_run(nq, nr, chunk, kind, nsel, s0, s1, s2, own_out, qkind)[1]}


def _pairwise_concrete(n, kind, nsel, s0, s1, s2, s3, flat, own_out):
    sigs_l = [sig(i, 'u4' if kind != 2 else ['u2', 'u8', 'u4'][i % 3]) for i in range(n)]
    sigs = container(kind, sigs_l)
    sel = None if nsel == 0 else [s0, s1, s2, s3][:nsel - 1]
    if sel is not None and any(s >= n for s in sel):
        return True, 'selection out of range (skipped)'
    m = n if sel is None else len(sel)
    npairs = m * (m - 1) // 2
    shape = (npairs,) if flat else (m, m)
    out = make_out(shape, own_out)
    saved = gm._cmetric
    gm._cmetric = CStub
    try:
        res = gm.jaccarddist_pairwise(sigs, indices=sel, flat=flat, out=out)
    finally:
        gm._cmetric = saved
    if res.shape != shape or res.dtype != np.float32 or (own_out and res is not out):
        return False, f'shape/dtype/buffer {res.shape} {res.dtype}'
    idx = list(range(n)) if sel is None else sel
    if gm.num_pairs(m) != npairs:
        return False, 'num_pairs'
    k = 0
    for i in range(m):
        for j in range(m):
            if flat:
                if i < j:
                    # condensed index of (i, j), i < j: standard formula
                    pos = m * i - i * (i + 1) // 2 + (j - i - 1)
                    if res[pos] != tag(sigs_l[idx[i]], sigs_l[idx[j]]):
                        return False, f'condensed cell {pos} for pair ({i},{j}) holds {res[pos]}'
            else:
                want = np.float32(0) if i == j else tag(sigs_l[idx[min(i, j)]], sigs_l[idx[max(i, j)]])
                if res[i, j] != want:
                    return False, f'cell ({i},{j}) holds {res[i, j]}, expected {want}'
                if res[i, j] != res[j, i]:
                    return False, f'not symmetric at ({i},{j})'
    return True, None


def _pairwise_run(n, kind, nsel, s0, s1, s2, s3, flat, own_out):
    a = [fork_int(n, 1, MAXR), fork_int(kind, 0, 3), fork_int(nsel, 0, 5), fork_int(s0, 0, MAXR - 1), fork_int(s1, 0, MAXR - 1),
         fork_int(s2, 0, MAXR - 1), fork_int(s3, 0, MAXR - 1)]
    oo = fork_int(own_out, 0, 2)
    with NoTracing():
        return _pairwise_concrete(*a, bool(flat), oo)


def _c05_pairwise(n: int, kind: int, nsel: int, s0: int, s1: int, s2: int, s3: int, flat: bool, own_out: int) -> bool:
    """
    pre: 1 <= n <= MAXR and 0 <= kind <= 3 and 0 <= nsel <= 5 and all(0 <= s < MAXR for s in (s0, s1, s2, s3)) and 0 <= own_out <= 2 and (kind < 3 or P.get('kind') == 3)
    pre: (nsel > 1 or s0 == 0) and (nsel > 2 or s1 == 0) and (nsel > 3 or s2 == 0) and (nsel > 4 or s3 == 0)
    pre: ('kind' not in P or kind == P['kind']) and nsel <= MAXSEL + 2
    pre: 'longsel' not in P or (nsel == MAXSEL + 2 and n == MAXR)
    post: _
    """
    return _pairwise_run(n, kind, nsel, s0, s1, s2, s3, flat, own_out)[0]


def explain_c05_pairwise(n, kind, nsel, s0, s1, s2, s3, flat, own_out):
    return {'n': n, 'container': ['SignatureArray', 'SignatureList', 'list', 'HDF5Signatures'][kind], 'indices': None if nsel == 0 else [s0, s1, s2, s3][:nsel - 1], 'flat': flat,
            'out(0 none,1 C-contiguous,2 non-contiguous)': own_out, 'why': _pairwise_run(n, kind, nsel, s0, s1, s2, s3, flat, own_out)[1]}


def _chunks_run(n, size):
    nc, sc = fork_int(n, 0, 12), fork_int(size, -1, 14)
    with NoTracing():
        try:
            sl = list(chunk_slices(nc, sc))
        except ValueError:
            return sc <= 0, 'ValueError'
        if sc <= 0:
            return False, 'non-positive size accepted'
        covered = []
        for s in sl:
            if s.step not in (None, 1) or s.start != len(covered) or s.stop - s.start != sc:
                return False, f'bad slice {s}'
            covered.extend(range(nc)[s])
        return covered == list(range(nc)), f'slices {sl}'


def _c05_chunks(n: int, size: int) -> bool:
    """
    chunk_slices covers 0..n exactly once, in order, in chunks of the given size.
    pre: 0 <= n <= 12 and -1 <= size <= 14
    post: _
    """
    return _chunks_run(n, size)[0]


def explain_c05_chunks(n, size):
    return {'n': n, 'size': size, 'why': _chunks_run(n, size)[1]}


def _array_concrete(nr, kind, own_out, dtype_i):
    q = sig(1, ['u4', 'i4', 'u8', 'i8', 'u2'][dtype_i])
    refs_l = [sig(8 + j, 'u4' if kind != 2 else ['u4', 'i8', 'u2'][j % 3]) for j in range(nr)]
    refs = container(kind, refs_l)
    out = make_out((nr,), own_out)
    saved = gm._cmetric
    gm._cmetric = CStub
    try:
        res = gm.jaccarddist_array(q, refs, out=out)
    finally:
        gm._cmetric = saved
    if res.shape != (nr,) or res.dtype != np.float32 or (own_out and res is not out):
        return False, 'shape/dtype/buffer'
    for j in range(nr):
        if res[j] != tag(q, refs_l[j]):
            return False, f'cell {j} holds {res[j]}'
    return True, None


def _array_run(nr, kind, own_out, dtype_i):
    a = [fork_int(nr, 0, MAXR), fork_int(kind, 0, 2)]
    d = fork_int(dtype_i, 0, 4)
    oo = fork_int(own_out, 0, 2)
    with NoTracing():
        return _array_concrete(*a, oo, d)


def _c05_array(nr: int, kind: int, own_out: int, dtype_i: int) -> bool:
    """
    pre: 0 <= nr <= MAXR and 0 <= kind <= 2 and 0 <= dtype_i <= 4 and 0 <= own_out <= 2
    post: _
    """
    return _array_run(nr, kind, own_out, dtype_i)[0]


def explain_c05_array(nr, kind, own_out, dtype_i):
    return {'refs': nr, 'container': ['SignatureArray', 'SignatureList', 'list', 'HDF5Signatures'][kind], 'why': _array_run(nr, kind, own_out, dtype_i)[1]}
