from xh import gen
import os


def make(G):
    s = {'G': str(G)}
    for key, prefix, n, typ in (('D', 'd', G, 'int'), ('P', 'p', G, 'int')):
        s[key + '_ARGS'] = gen.args(prefix, n, typ)
        s[key + '_LIST'] = gen.lst(prefix, n)
        s[key + '_NAMES'] = ', '.join(gen.names(prefix, n))
    return gen.emit(os.path.join(os.path.dirname(__file__), 't_c09.py.tmpl'), f'h_c09_G{G}.py', s)
