from xh import gen
import os


def make(T, G):
    s = {'T': str(T), 'G': str(G)}
    for key, prefix, n, typ in (('TH', 'th', T, 'int'), ('REP', 'rep', T, 'bool'), ('D', 'd', G, 'int'), ('A', 'a', G, 'int')):
        s[key + '_ARGS'] = gen.args(prefix, n, typ)
        s[key + '_LIST'] = gen.lst(prefix, n)
        s[key + '_NAMES'] = ', '.join(gen.names(prefix, n))
    return gen.emit(os.path.join(os.path.dirname(__file__), 't_c03.py.tmpl'), f'h_c03_T{T}_G{G}.py', s)
