"""C04 harness (engine X): the real ReferenceDatabase.__init__ / genomes_by_id_subset / genomes_by_id / _map_ids_to_genomes /
_check_genome_id_attr / locate_files against an in-memory SQLite genome set, and the real gambit.query.query with the
distance matrix replaced by a stub that tags every column with the signature it was computed from.
Symbolic (case-split by the solver, then run natively): the arrangement of signature IDs in the file (order, unrelated
extras, a genome without signature), the identifier attribute named by the metadata, the directory contents."""
import os
import json
import types
import pathlib
import numpy as np
from sqlalchemy import create_engine
from sqlalchemy.orm import sessionmaker

import gambit.db.refdb as refdb
import gambit.query as gquery
from gambit.db.models import Base, Genome, AnnotatedGenome, ReferenceGenomeSet, Taxon
from gambit.db.refdb import ReferenceDatabase, DatabaseLoadError
from gambit.db.sqla import ReadOnlySession
from gambit.sigs.base import SignaturesMeta
from gambit.kmers import KmerSpec
from xh.taxo import fork_int, NoTracing

P = json.loads(os.environ.get('XH_PARAMS', '{}') or '{}')
NG = int(P.get('genomes', 3))
NSLOT = int(P.get('slots', 4))
ATTRS = ['key', 'genbank_acc', 'refseq_acc', 'ncbi_id']
# world 0: every identifier attribute is unique and present.  world 1: the last genome has the same NCBI uid as the first one, in another NCBI
# database (the schema's uniqueness is over (ncbi_db, ncbi_id)), so by ncbi_id one of them can never get a signature of its own.  world 2: one
# genome has no RefSeq accession, so by refseq_acc it has no signature.
WORLD = int(P.get('world', 0))


def _build():
    engine = create_engine('sqlite://')
    Base.metadata.create_all(engine)
    S = sessionmaker(engine)
    s = S()
    gset = ReferenceGenomeSet(key='gs', version='1.0', name='test set')
    tax = Taxon(key='t', name='taxon', genome_set=gset, distance_threshold=0.5)
    s.add(gset)
    for i in range(NG):
        g = Genome(key=f'k{i}', description=f'genome {i}', ncbi_db='assembly', ncbi_id=100 + i, genbank_acc=f'GCA_{i}', refseq_acc=f'GCF_{i}')
        if WORLD == 1 and i == NG - 1:
            g.ncbi_db, g.ncbi_id = 'nuccore', 100
        if WORLD == 2 and i == 1:
            g.refseq_acc = None
        s.add(AnnotatedGenome(genome=g, genome_set=gset, taxon=tax, organism='o'))
    # a genome outside the set (must never be paired)
    s.add(Genome(key='other', description='not in set', ncbi_db='assembly', ncbi_id=999, genbank_acc='GCA_x', refseq_acc='GCF_x'))
    s.commit()
    ro = sessionmaker(engine, class_=ReadOnlySession)()
    return ro, ro.query(ReferenceGenomeSet).one()


SESSION, GSET = _build()
IDVAL = {a: [getattr(ag.genome, a) for ag in GSET.genomes.join(AnnotatedGenome.genome).order_by(Genome.id)] for a in ATTRS}
# unrelated stored IDs: one that differs from genome 0's ID only by surrounding whitespace (a different, unique ID all the same), and the ID of
# the genome outside the set
EXTRA = {'key': ['k0 ', 'other'], 'genbank_acc': ['GCA_0 ', 'GCA_x'], 'refseq_acc': [' GCF_0', 'GCF_x'], 'ncbi_id': [555, 999]}


class FakeSigs:
    def __init__(self, ids, id_attr):
        self.ids = ids
        self.meta = SignaturesMeta(id_attr=id_attr)
        self.kmerspec = KmerSpec(9, 'AT')

    def __len__(self):
        return len(self.ids)


def _slots_ok(slots):
    """slot values: 0..NG-1 genome, NG / NG+1 unrelated extras, NG+2 = unused (only trailing); no repeats."""
    seen_unused = False
    used = []
    for x in slots:
        if x == NG + 2:
            seen_unused = True
            continue
        if seen_unused or x in used:
            return False
        used.append(x)
    return True


def _load_concrete(slots, attr_i):
    # attr_i: 0..3 valid attribute, 4 = None, 5 = unknown name
    attr = ATTRS[attr_i] if attr_i < 4 else (None if attr_i == 4 else 'description')
    a = ATTRS[attr_i] if attr_i < 4 else 'key'
    ids = []
    for x in slots:
        if x == NG + 2:
            continue
        v = IDVAL[a][x] if x < NG else EXTRA[a][x - NG]
        ids.append('GCF_none' if v is None else v)        # the file cannot hold "no value"; whatever it holds cannot equal it
    if a == 'ncbi_id':
        ids = np.array(ids, dtype=np.int64) if ids else np.array([], dtype=np.int64)       # integer IDs come back from HDF5 as numpy integers
    sigs = FakeSigs(ids, attr)
    present = {x for x in slots if x < NG}
    if WORLD == 1 and a == 'ncbi_id' and {0, NG - 1} <= present:
        return True, 'outside the property: the signature file would hold the same ID twice'
    complete = len(present) == NG and not (WORLD == 1 and a == 'ncbi_id') and not (WORLD == 2 and a == 'refseq_acc')
    try:
        db = ReferenceDatabase(GSET, sigs)
    except (ValueError, TypeError, KeyError, RuntimeError) as e:
        ok = (attr_i >= 4) or not complete
        return ok, f'load failed with {type(e).__name__}: {e}'
    if attr_i >= 4 or not complete:
        return False, 'database loaded although it must fail'
    if len(db.genomes) != NG or len(db.sig_indices) != NG or len({id(g) for g in db.genomes}) != NG:
        return False, 'not every genome of the set exactly once'
    for g, si in zip(db.genomes, db.sig_indices):
        if g.genome_set_id != GSET.id:
            return False, 'genome from outside the set'
        if sigs.ids[si] != getattr(g.genome, a):
            return False, f'genome {g.genome.key} paired with signature #{si} whose id is {sigs.ids[si]!r}'
    # distances reported for a genome come from its own signature: run the real query with a tagging distance stub
    seen = {}

    def jaccarddist_matrix(queries, refs, ref_indices=None, **kw):
        seen['refs'] = refs
        seen['ref_indices'] = ref_indices
        cols = list(range(len(refs))) if ref_indices is None else list(ref_indices)
        return np.array([[float(c) for c in cols] for _ in queries], dtype=np.float32)     # column value = index of the signature used

    rows = []

    def get_result_item(db_, params, dists, input):
        rows.append(np.array(dists))
        return ('item', input)
    saved = (gquery.jaccarddist_matrix, gquery.get_result_item)
    gquery.jaccarddist_matrix, gquery.get_result_item = jaccarddist_matrix, get_result_item
    try:
        gquery.query(db, [np.array([1], dtype='u4'), np.array([2], dtype='u4')])
    finally:
        gquery.jaccarddist_matrix, gquery.get_result_item = saved
    if seen.get('refs') is not sigs or len(rows) != 2:
        return False, 'query did not use the database signatures'
    for row in rows:
        if len(row) != NG:
            return False, 'distance row length'
        for j, g in enumerate(db.genomes):
            if sigs.ids[int(row[j])] != getattr(g.genome, a):
                return False, f'distance column {j} (genome {g.genome.key}) was computed from signature #{int(row[j])} with id {sigs.ids[int(row[j])]!r}'
    return True, None


def _load_run(slots, attr_i):
    sc = [fork_int(x, 0, NG + 2) for x in slots]
    ac = fork_int(attr_i, 0, 5)
    with NoTracing():
        return _load_concrete(sc, ac)


def _c04_load(s0: int, s1: int, s2: int, s3: int, s4: int, attr_i: int) -> bool:
    """
    pre: all(0 <= x <= NG + 2 for x in (s0, s1, s2, s3, s4)) and 0 <= attr_i <= 5 and _slots_ok([s0, s1, s2, s3, s4][:NSLOT])
    pre: all(x == NG + 2 for x in [s0, s1, s2, s3, s4][NSLOT:])
    post: _
    """
    return _load_run([s0, s1, s2, s3, s4][:NSLOT], attr_i)[0]


def explain_c04_load(s0, s1, s2, s3, s4, attr_i):
    return {'signature_file_slots(genome index / extras / unused)': [s0, s1, s2, s3, s4][:NSLOT], 'id_attr': (ATTRS + [None, 'description'])[attr_i],
            'why': _load_run([s0, s1, s2, s3, s4][:NSLOT], attr_i)[1]}


# ---- directory contents

POOL = ['a.gdb', 'b.db', 'c.gs', 'd.h5', 'e.txt', 'sub.gs.bak', 'f.GS']


def _locate_concrete(mask):
    names = [n for i, n in enumerate(POOL) if (mask >> i) & 1]
    saved = pathlib.Path.iterdir
    pathlib.Path.iterdir = lambda self: iter([self / n for n in names])
    try:
        try:
            g, s = ReferenceDatabase.locate_files('/nonexistent/dbdir')
            got = ('ok', g.name, s.name)
        except DatabaseLoadError as e:
            got = ('DatabaseLoadError', e.msg)
    finally:
        pathlib.Path.iterdir = saved
    gfiles = [n for n in names if n.endswith(('.gdb', '.db'))]
    sfiles = [n for n in names if n.endswith(('.gs', '.h5'))]
    if len(gfiles) == 1 and len(sfiles) == 1:
        return got == ('ok', gfiles[0], sfiles[0]), f'{names} -> {got}'
    return got[0] == 'DatabaseLoadError', f'{names} -> {got}'


def _locate_run(mask):
    mc = fork_int(mask, 0, (1 << len(POOL)) - 1)
    with NoTracing():
        return _locate_concrete(mc)


def _c04_locate(mask: int) -> bool:
    """
    pre: 0 <= mask < 2 ** len(POOL)
    post: _
    """
    return _locate_run(mask)[0]


def explain_c04_locate(mask):
    return {'why': _locate_run(mask)[1]}


# ---- real files: SQLite genome database + HDF5 signature file in a directory (created once at import, outside the analysis)

import shutil
import itertools as _it

_ROOT = os.path.join(os.path.dirname(os.path.dirname(os.path.abspath(__file__))), 'scratch', 'c04_dirs')
_PERMS = list(_it.permutations(range(3)))
_EXTRA_POS = [None, 0, 1, 2, 3]
_RSIGS = [np.arange(i * 5, i * 5 + 8, dtype='u4') for i in range(3)]


def _dir_for(perm_i, extra_i, attr_i):
    return os.path.join(_ROOT, f'p{perm_i}_e{extra_i}_a{attr_i}')


def _prepare_dirs():
    from gambit.sigs.base import SignatureList, AnnotatedSignatures, dump_signatures
    os.makedirs(_ROOT, exist_ok=True)
    gdb = os.path.join(_ROOT, 'genomes.gdb')
    if not os.path.exists(gdb):
        tmp = gdb + f'.{os.getpid()}.tmp'
        eng = create_engine(f'sqlite:///{tmp}')
        Base.metadata.create_all(eng)
        s = sessionmaker(eng)()
        gset = ReferenceGenomeSet(key='gs', version='1.0', name='test set')
        tax = Taxon(key='t', name='taxon', genome_set=gset, distance_threshold=0.5)
        s.add(gset)
        for i in range(3):
            g = Genome(key=f'k{i}', description=f'genome {i}', ncbi_db='assembly', ncbi_id=100 + i, genbank_acc=f'GCA_{i}', refseq_acc=f'GCF_{i}')
        if WORLD == 1 and i == NG - 1:
            g.ncbi_db, g.ncbi_id = 'nuccore', 100
        if WORLD == 2 and i == 1:
            g.refseq_acc = None
            s.add(AnnotatedGenome(genome=g, genome_set=gset, taxon=tax, organism='o'))
        s.add(Genome(key='other', description='not in set', ncbi_db='assembly', ncbi_id=999, genbank_acc='GCA_x', refseq_acc='GCF_x'))
        s.commit()
        s.close()
        eng.dispose()
        os.replace(tmp, gdb)
    vals = {'key': ['k0', 'k1', 'k2'], 'genbank_acc': ['GCA_0', 'GCA_1', 'GCA_2'], 'refseq_acc': ['GCF_0', 'GCF_1', 'GCF_2'], 'ncbi_id': [100, 101, 102]}
    extra = {'key': 'other', 'genbank_acc': 'GCA_x', 'refseq_acc': 'GCF_q', 'ncbi_id': 999}
    for pi, perm in enumerate(_PERMS):
        for ei, epos in enumerate(_EXTRA_POS):
            for ai, attr in enumerate(ATTRS):
                d = _dir_for(pi, ei, ai)
                if os.path.exists(os.path.join(d, 'sigs.gs')) and os.path.exists(os.path.join(d, 'genomes.gdb')):
                    continue
                tmpd = d + f'.{os.getpid()}.tmp'
                shutil.rmtree(tmpd, ignore_errors=True)
                os.makedirs(tmpd)
                shutil.copy(gdb, os.path.join(tmpd, 'genomes.gdb'))
                ids = [vals[attr][g] for g in perm]
                sigs = [_RSIGS[g] for g in perm]
                if epos is not None:
                    ids.insert(epos, extra[attr])
                    sigs.insert(epos, np.array([1000, 1001], dtype='u4'))
                ann = AnnotatedSignatures(SignatureList(sigs, KmerSpec(9, 'AT'), dtype=np.dtype('u4')), np.array(ids) if attr == 'ncbi_id' else ids, SignaturesMeta(id_attr=attr, name='test'))
                dump_signatures(os.path.join(tmpd, 'sigs.gs'), ann)
                shutil.rmtree(d, ignore_errors=True)
                os.replace(tmpd, d)


if P.get('files'):
    _prepare_dirs()


def _files_concrete(perm_i, extra_i, attr_i):
    d = _dir_for(perm_i, extra_i, attr_i)
    db = ReferenceDatabase.load_from_dir(d)
    try:
        attr = ATTRS[attr_i]
        if len(db.genomes) != 3:
            return False, 'not three genomes'
        for g, si in zip(db.genomes, db.sig_indices):
            if db.signatures.ids[si] != getattr(g.genome, attr):
                return False, f'genome {g.genome.key} paired with signature #{si} whose id is {db.signatures.ids[si]!r}'
        res = gquery.query(db, [_RSIGS[i] for i in range(3)], chunksize=2)
        for i, item in enumerate(res.items):
            cm = item.classifier_result.closest_match
            if cm.genome.genome.key != f'k{i}' or float(cm.distance) != 0.0:
                return False, f'query with the signature of genome k{i}: closest is {cm.genome.genome.key} at {cm.distance}'
            if [m.genome.genome.key for m in item.closest_genomes][0] != f'k{i}':
                return False, 'closest list head'
        return True, None
    finally:
        db.signatures.close()
        db.session.close()


def _c04_files(perm_i: int, extra_i: int, attr_i: int) -> bool:
    """
    Real directory with an SQLite genome file and an HDF5 signature file: load_from_dir, then a real query in which every genome's own
    signature must come back at distance 0 from that genome.
    pre: 0 <= perm_i < len(_PERMS) and 0 <= extra_i < len(_EXTRA_POS) and 0 <= attr_i < 4
    post: _
    """
    a = (fork_int(perm_i, 0, len(_PERMS) - 1), fork_int(extra_i, 0, len(_EXTRA_POS) - 1), fork_int(attr_i, 0, 3))
    with NoTracing():
        return _files_concrete(*a)[0]


def explain_c04_files(perm_i, extra_i, attr_i):
    return {'signature_order': _PERMS[perm_i], 'extra_signature_at': _EXTRA_POS[extra_i], 'id_attr': ATTRS[attr_i], 'why': _files_concrete(perm_i, extra_i, attr_i)[1]}
