"""C20 harness (engine X): the real SignatureArray / SignatureList / AnnotatedSignatures indexed with symbolic integers,
slice triples, index lists and masks; SignatureList mutations; equality.  Every symbolic component is case-split to a
concrete value by the solver (fork_int) before numpy sees it, and the real code then runs natively on that cell.
Oracle: numpy's own indexing of np.arange(n) (which positions are selected / which exception), and a plain list."""
import os
import json
import numpy as np

from gambit.sigs.base import SignatureArray, SignatureList, AnnotatedSignatures, sigarray_eq
from gambit.kmers import KmerSpec
from xh.taxo import fork_int, NoTracing

P = json.loads(os.environ.get('XH_PARAMS', '{}') or '{}')
N = int(P.get('n', 4))
KIND = P.get('kind', 'SignatureArray')
R = N + 2
KS = KmerSpec(5, 'AT')            # index dtype u2, deliberately different from the u4 the signatures are stored in
SIGS = [np.arange(j * 10, j * 10 + (j % 3), dtype='u4') for j in range(N)]      # includes empty signatures
NONE = R + 1                      # sentinel for "None" in slice components


# a real signature file (HDF5), written once at import time outside the analysis, for the file-backed collection
_H5 = os.path.join(os.path.dirname(os.path.dirname(os.path.abspath(__file__))), 'scratch', f'c20_n{N}.gs')
_H5_HANDLE = None


def h5_collection():
    global _H5_HANDLE
    from gambit.sigs.base import dump_signatures, load_signatures
    if _H5_HANDLE is None:
        os.makedirs(os.path.dirname(_H5), exist_ok=True)
        if not os.path.exists(_H5):
            tmp = _H5 + f'.{os.getpid()}.tmp'
            dump_signatures(tmp, AnnotatedSignatures(SignatureArray(SIGS, KS, dtype=np.dtype('u4')), ids=[f'id{j}' for j in range(N)]))
            os.replace(tmp, _H5)
        _H5_HANDLE = load_signatures(_H5)
    return _H5_HANDLE


def make(kind=None, sigs=None, ks=KS):
    kind = kind or KIND
    if kind == 'HDF5Signatures' and sigs is None and ks is KS:
        return h5_collection()
    sigs = SIGS if sigs is None else sigs
    if kind == 'SignatureArray':
        return SignatureArray(sigs, ks, dtype=np.dtype('u4'))
    if kind == 'SignatureList':
        return SignatureList(sigs, ks, dtype=np.dtype('u4'))
    if kind == 'AnnotatedSignatures':
        return AnnotatedSignatures(SignatureArray(sigs, ks, dtype=np.dtype('u4')), ids=[f'id{j}' for j in range(len(sigs))])
    raise ValueError(kind)


MAXLEN = int(P.get('maxlen', 3))
NOPS = int(P.get('nops', 3))


def expected(idx):
    """('ok', positions) or ('err', exception class name) according to numpy on arange."""
    try:
        r = np.arange(N)[idx]
    except Exception as e:   # noqa
        return ('err', type(e).__name__)
    return ('ok', r.tolist() if isinstance(r, np.ndarray) else int(r))


def check_index(idx, idx_for_oracle=None, expect_type=None):
    coll = make()
    snapshot = idx.copy() if isinstance(idx, np.ndarray) else None
    want = expected(idx if idx_for_oracle is None else idx_for_oracle)
    try:
        r = coll[idx]
        got = ('ok', r)
    except Exception as e:   # noqa
        got = ('err', type(e).__name__)
    if snapshot is not None and not (np.array_equal(snapshot, idx) and snapshot.dtype == idx.dtype):
        return False, 'caller index array modified'
    if want[0] == 'err':
        # index/type errors must be index/type errors (numpy raises IndexError for out-of-range and ill-typed indices,
        # TypeError for unusable slice components; the collection may use either of the two documented classes)
        if got[0] != 'err' or got[1] not in ('IndexError', 'TypeError', 'ValueError'):
            return False, f'expected {want}, got {got[0]} {got[1] if got[0] == "err" else ""}'
        return True, None
    if got[0] == 'err':
        return False, f'expected positions {want[1]}, got {got[1]}'
    r = got[1]
    if isinstance(want[1], int):
        if not isinstance(r, np.ndarray) or not np.array_equal(r, SIGS[want[1]]) or r.dtype != np.dtype('u4'):
            return False, f'expected signature {want[1]}, got {r!r}'
        # documented: sizeof(i) == len(collection[i])
        try:
            sz = coll.sizeof(idx)
        except Exception as e:   # noqa
            return False, f'sizeof({idx!r}) raised {type(e).__name__} for a valid index'
        if int(sz) != len(SIGS[want[1]]):
            return False, f'sizeof({idx!r}) == {int(sz)} but the signature there has {len(SIGS[want[1]])} k-mers'
        return True, None
    sel = [SIGS[j] for j in want[1]]
    if len(r) != len(sel) or not all(np.array_equal(a, b) for a, b in zip(r, sel)):
        return False, f'expected signatures {want[1]}, got {[list(map(int, x)) for x in r]}'
    if r.kmerspec != KS or np.dtype(r.dtype) != np.dtype('u4'):
        return False, 'sub-collection lost kmerspec / dtype'
    if not (isinstance(r, (SignatureArray, SignatureList))):
        return False, f'sub-collection has type {type(r).__name__}'
    for j in range(-len(sel), len(sel)):
        if int(r.sizeof(j)) != len(sel[j]):
            return False, f'sub-collection sizeof({j}) == {int(r.sizeof(j))} but that signature has {len(sel[j])} k-mers'
    if [int(x) for x in r.sizes()] != [len(x) for x in sel]:
        return False, f'sub-collection sizes() == {list(r.sizes())}'
    return True, None


def _dec(x):
    return None if x == NONE else x


if KIND == 'HDF5Signatures':
    h5_collection()        # create / open the file at import time


# ---- integer index ------------------------------------------------------------------------------------------------

def _int_run(i, as_numpy):
    ic = fork_int(i, -R, R)
    with NoTracing():
        return check_index(np.int16(ic) if as_numpy else ic)


def _c20_int(i: int, as_numpy: bool) -> bool:
    """
    pre: -R <= i <= R
    post: _
    """
    return _int_run(i, as_numpy)[0]


def explain_c20_int(i, as_numpy):
    return {'container': KIND, 'n': N, 'index': i, 'numpy_scalar': as_numpy, 'why': _int_run(i, as_numpy)[1]}


# ---- slices -------------------------------------------------------------------------------------------------------

def _slice_run(a, b, c):
    ac, bc, cc = fork_int(a, -R, NONE), fork_int(b, -R, NONE), fork_int(c, -R, NONE)
    with NoTracing():
        return check_index(slice(_dec(ac), _dec(bc), _dec(cc)))


def _c20_slice(a: int, b: int, c: int) -> bool:
    """
    pre: -R <= a <= NONE and -R <= b <= NONE and -R <= c <= NONE
    post: _
    """
    return _slice_run(a, b, c)[0]


def explain_c20_slice(a, b, c):
    return {'container': KIND, 'n': N, 'slice': [_dec(a), _dec(b), _dec(c)], 'why': _slice_run(a, b, c)[1]}


# ---- integer lists / arrays ---------------------------------------------------------------------------------------

def _list_run(ln, i0, i1, i2, form):
    lc = fork_int(ln, 0, 3)
    vals = [fork_int(x, -R, R) for x in (i0, i1, i2)[:lc]]
    fc = fork_int(form, 0, 3)
    with NoTracing():
        if fc == 0:
            idx = list(vals)
        elif fc == 1:
            idx = np.array(vals, dtype=np.intp)
        elif fc == 2:
            idx = np.array(vals, dtype=np.int8)
        else:
            idx = tuple(vals)
        oracle_idx = np.array(vals, dtype=np.intp)
        return check_index(idx, oracle_idx)


def _c20_list(ln: int, i0: int, i1: int, i2: int, form: int) -> bool:
    """
    pre: 0 <= ln <= MAXLEN and all(-R <= x <= R for x in (i0, i1, i2)) and 0 <= form <= 3
    pre: (ln > 0 or i0 == 0) and (ln > 1 or i1 == 0) and (ln > 2 or i2 == 0)
    post: _
    """
    return _list_run(ln, i0, i1, i2, form)[0]


def explain_c20_list(ln, i0, i1, i2, form):
    return {'container': KIND, 'n': N, 'indices': [i0, i1, i2][:ln], 'form': ['list', 'intp array', 'int8 array', 'tuple'][form], 'why': _list_run(ln, i0, i1, i2, form)[1]}


def _list3_run(i0, i1, i2, as_array):
    vals = [fork_int(x, -N, N - 1) for x in (i0, i1, i2)]
    with NoTracing():
        idx = np.array(vals, dtype=np.intp) if as_array else list(vals)
        return check_index(idx, np.array(vals, dtype=np.intp))


def _c20_list3(i0: int, i1: int, i2: int, as_array: bool) -> bool:
    """
    Every sequence of three valid indices (repeats, any order, negative ones).
    pre: all(-N <= x < N for x in (i0, i1, i2))
    post: _
    """
    return _list3_run(i0, i1, i2, as_array)[0]


def explain_c20_list3(i0, i1, i2, as_array):
    return {'container': KIND, 'n': N, 'indices': [i0, i1, i2], 'array': as_array, 'why': _list3_run(i0, i1, i2, as_array)[1]}


# ---- boolean masks ------------------------------------------------------------------------------------------------

def _mask_run(bits, ln):
    lc = fork_int(ln, 0, N + 1)
    bc = fork_int(bits, 0, (1 << (N + 1)) - 1)
    with NoTracing():
        mask = [(bc >> k) & 1 == 1 for k in range(lc)]
        # a mask selects the positions holding True; a mask of the wrong length is an index error (numpy's legacy
        # acceptance of a zero-length boolean index is not part of the property)
        oracle = np.flatnonzero(np.array(mask, dtype=bool)) if lc == N else np.array([N + 5])
        ok1, why1 = check_index(np.array(mask, dtype=bool), oracle)
        ok2, why2 = check_index(mask, oracle) if lc else (True, None)
        return (ok1 and ok2), (why1 or why2)


def _c20_mask(bits: int, ln: int) -> bool:
    """
    pre: 0 <= ln <= N + 1 and 0 <= bits < 2 ** (N + 1)
    post: _
    """
    return _mask_run(bits, ln)[0]


def explain_c20_mask(bits, ln):
    return {'container': KIND, 'n': N, 'mask': [(bits >> k) & 1 for k in range(ln)], 'why': _mask_run(bits, ln)[1]}


# ---- SignatureList mutations --------------------------------------------------------------------------------------

NEW = [np.array([900 + t], dtype='u4') for t in range(4)]


def _mut_run(ops):
    """ops: list of (kind, pos) - 0 setitem, 1 insert, 2 delitem; pos in [-R, R]."""
    conc = [(fork_int(k, 0, 2), fork_int(p, -R, R)) for k, p in ops[:NOPS]]
    with NoTracing():
        sl = SignatureList(SIGS, KS, dtype=np.dtype('u4'))
        ref = list(SIGS)
        for t, (k, p) in enumerate(conc):
            def apply(target):
                if k == 0:
                    target[p] = NEW[t]
                elif k == 1:
                    target.insert(p, NEW[t])
                else:
                    del target[p]
            try:
                apply(ref)
                r1 = 'ok'
            except IndexError:
                r1 = 'IndexError'
            try:
                apply(sl)
                r2 = 'ok'
            except IndexError:
                r2 = 'IndexError'
            except Exception as e:   # noqa
                r2 = type(e).__name__
            if r1 != r2:
                return False, f'op {t} {("setitem", "insert", "delitem")[k]}({p}): list -> {r1}, SignatureList -> {r2}'
            if len(sl) != len(ref) or not all(a is b for a, b in zip(sl, ref)):
                return False, f'after op {t} {("setitem", "insert", "delitem")[k]}({p}) contents differ from the list'
        return True, None


def _c20_mutate(k0: int, p0: int, k1: int, p1: int, k2: int, p2: int) -> bool:
    """
    pre: all(0 <= k <= 2 for k in (k0, k1, k2)) and all(-R <= p <= R for p in (p0, p1, p2))
    pre: (NOPS > 2 or (k2 == 0 and p2 == 0)) and (NOPS > 1 or (k1 == 0 and p1 == 0)) and ('k0' not in P or k0 == P['k0'])
    post: _
    """
    return _mut_run([(k0, p0), (k1, p1), (k2, p2)])[0]


def explain_c20_mutate(k0, p0, k1, p1, k2, p2):
    return {'n': N, 'ops': [(("setitem", "insert", "delitem")[k], p) for k, p in ((k0, p0), (k1, p1), (k2, p2))], 'why': _mut_run([(k0, p0), (k1, p1), (k2, p2)])[1]}


# ---- equality -----------------------------------------------------------------------------------------------------

def _eq_run(kind_a, kind_b, change, same_spec):
    ka, kb, ch = fork_int(kind_a, 0, 2), fork_int(kind_b, 0, 2), fork_int(change, 0, 3 * N + 1)
    with NoTracing():
        kinds = ['SignatureArray', 'SignatureList', 'AnnotatedSignatures']
        sigs_b = [s.copy() for s in SIGS]
        equal_content = True
        if ch < N:                               # change one element of signature ch (if it has one) else append one
            s = sigs_b[ch]
            sigs_b[ch] = np.append(s, np.uint32(7777)) if len(s) == 0 else np.concatenate([s[:-1], [s[-1] + 1]]).astype('u4')
            equal_content = False
        elif ch < 2 * N:                         # drop signature
            del sigs_b[ch - N]
            equal_content = False
        elif ch < 3 * N:                         # same values, wider dtype: still equal as sequences of k-mer sets
            sigs_b[ch - 2 * N] = sigs_b[ch - 2 * N].astype('u8')
        elif ch == 3 * N:                        # extra empty signature at the end
            sigs_b.append(np.empty(0, dtype='u4'))
            equal_content = False
        a = make(kinds[ka])
        b = make(kinds[kb], sigs_b, KS if same_spec else KmerSpec(9, 'AC'))
        want = equal_content and bool(same_spec)
        got = (a == b)
        got_rev = (b == a)
        if got is not want or got_rev is not want:
            return False, f'{kinds[ka]} == {kinds[kb]} gave {got}/{got_rev}, expected {want}'
        return True, None


def _c20_eq(kind_a: int, kind_b: int, change: int, same_spec: bool) -> bool:
    """
    pre: 0 <= kind_a <= 2 and 0 <= kind_b <= 2 and 0 <= change <= 3 * N + 1
    post: _
    """
    return _eq_run(kind_a, kind_b, change, same_spec)[0]


def explain_c20_eq(kind_a, kind_b, change, same_spec):
    return {'n': N, 'kinds': [kind_a, kind_b], 'change': change, 'same_spec': same_spec, 'why': _eq_run(kind_a, kind_b, change, same_spec)[1]}
