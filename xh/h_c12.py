"""C12 harness (engine X): real dump_signatures -> file -> load_signatures round trips through h5py on scratch files, and
foreign files offered to load_signatures.  The solver enumerates container kind, ID kind, metadata and compression
(fork_int); inside each cell every pooled (k-mer parameters x stored integer type x length pattern) combination is written,
loaded back and compared for every integer index, every slice over a small range and a set of index lists."""
import os
import json
import gzip
import shutil
import itertools

import numpy as np
import h5py

from gambit.kmers import KmerSpec
from gambit.sigs.base import SignatureArray, SignatureList, AnnotatedSignatures, SignaturesMeta, SignaturesFileError, load_signatures, dump_signatures
from gambit.sigs.hdf5 import HDF5Signatures
from xh.taxo import fork_int, NoTracing

P = json.loads(os.environ.get('XH_PARAMS', '{}') or '{}')
from xh import scratchdir
_ROOT = scratchdir.fresh('c12')

KSPECS = [KmerSpec(1, 'A'), KmerSpec(8, 'ATG'), KmerSpec(8, 'ACG'), KmerSpec(11, 'ATGAC'), KmerSpec(16, 'CC'), KmerSpec(17, 'T'), KmerSpec(32, 'ACGTACG')]
DTYPES = ['u1', 'u2', 'u4', 'u8']
SHAPES = [[0], [0, 0, 0], [3], [0, 2, 0, 5, 1], [1, 1, 1, 1, 1, 1], [4, 0]]
CONTAINERS = ['SignatureArray', 'SignatureList', 'AnnotatedSignatures(SignatureArray)', 'AnnotatedSignatures(SignatureList)', 'HDF5Signatures (re-dumped)']
IDKINDS = ['ascii strings', 'unicode strings', 'integers', 'numpy str array']
METAS = [SignaturesMeta(),
         SignaturesMeta(id='set/1', name='Grüße 世界', version='1.0.dev3', id_attr='genbank_acc', description='line one\nline two, "quoted"',
                        extra={'nested': {'list': [1, 2.5, None, 'x'], 'kéy': {'deep': True}}, 'n': 0}),
         SignaturesMeta(id=None, name='', version=None, id_attr='key', description=None, extra={})]
COMPRESSIONS = [dict(), dict(compression='gzip'), dict(compression='gzip', compression_opts=9), dict(compression='lzf')]


def make_sigs(shape, dt):
    """Sorted duplicate-free signatures of the given lengths; the largest value of the stored type occurs."""
    top = int(np.iinfo(dt).max)
    out = []
    for j, n in enumerate(shape):
        vals = sorted({(top - 3 * i - j) if i % 2 == 0 else (7 * i + j) % (top + 1) for i in range(n)})
        while len(vals) < n:
            vals = sorted(set(vals) | {len(vals) + 11})
        out.append(np.array(vals[:n], dtype=dt))
    return out


def make_ids(kind, n):
    if kind == 0:
        return [f'id-{i}' for i in range(n)]
    if kind == 1:
        return [f'génome №{i} 世' for i in range(n)]
    if kind == 2:
        return [2 ** 40 + 3 * i for i in range(n)]
    return np.array([f'u{i}' for i in range(n)])


def build(cont, ks, sigs, dt, ids, meta, tag):
    arr = SignatureArray(sigs, ks, dtype=np.dtype(dt))
    lst = SignatureList(sigs, ks, dtype=np.dtype(dt))
    if cont == 0:
        return arr, None, None
    if cont == 1:
        return lst, None, None
    if cont == 2:
        return AnnotatedSignatures(arr, ids, meta), ids, meta
    if cont == 3:
        return AnnotatedSignatures(lst, ids, meta), ids, meta
    p0 = os.path.join(_ROOT, f'src_{tag}.gs')
    dump_signatures(p0, AnnotatedSignatures(arr, ids, meta))
    return load_signatures(p0), ids, meta


def same_ids(got, want):
    got, want = list(got), list(want)
    if len(got) != len(want):
        return False
    for a, b in zip(got, want):
        if isinstance(b, (int, np.integer)):
            if not isinstance(a, (int, np.integer)) or int(a) != int(b):
                return False
        elif not isinstance(a, str) or a != str(b):
            return False
    return True


def roundtrip(cont, idk, mi, ci, ki, di, si):
    ks, dt, shape = KSPECS[ki], DTYPES[di], SHAPES[si]
    sigs = make_sigs(shape, dt)
    n = len(sigs)
    ids, meta = make_ids(idk, n), METAS[mi]
    tag = f'{cont}{idk}{mi}{ci}{ki}{di}{si}'
    coll, want_ids, want_meta = build(cont, ks, sigs, dt, ids, meta, tag)
    if want_ids is None:
        want_ids, want_meta = list(range(n)), SignaturesMeta()
    path = os.path.join(_ROOT, f'rt_{tag}.gs')
    try:
        try:
            dump_signatures(path, coll, **COMPRESSIONS[ci])
        except Exception as e:   # noqa
            return f'writing raised {type(e).__name__}: {e}'
        try:
            back = load_signatures(path)
        except Exception as e:   # noqa
            return f'loading the file just written raised {type(e).__name__}: {e}'
        with back:
            if back.kmerspec != ks:
                return f'k-mer parameters {back.kmerspec} != {ks}'
            if not same_ids(back.ids, want_ids):
                return f'ids {list(back.ids)!r} != {list(want_ids)!r}'
            if back.meta != want_meta:
                return f'metadata {back.meta!r} != {want_meta!r}'
            if len(back) != n or np.dtype(back.dtype) != np.dtype(dt):
                return f'length / dtype {len(back)} {back.dtype} != {n} {dt}'
            for i in range(-n, n):
                r = back[i]
                if not isinstance(r, np.ndarray) or r.dtype != np.dtype(dt) or not np.array_equal(r, sigs[i]):
                    return f'signature [{i}] is {r!r}, expected {sigs[i]!r}'
            rng = [None] + list(range(-n - 1, n + 2))
            for a, b, c in itertools.product(rng, rng, (None, 1, 2, -1, -2)):
                sub = back[a:b:c]
                want = sigs[a:b:c]
                if len(sub) != len(want) or np.dtype(sub.dtype) != np.dtype(dt) or sub.kmerspec != ks or not all(x.dtype == np.dtype(dt) and np.array_equal(x, y) for x, y in zip(sub, want)):
                    return f'slice [{a}:{b}:{c}] gives {[x.tolist() for x in sub]}, expected {[y.tolist() for y in want]}'
            lists = [[], list(range(n)), list(range(n - 1, -1, -1)), [0, 0], [-1, 0, -1], [n - 1] * 3]
            if n <= 3:
                lists += [list(t) for t in itertools.product(range(-n, n), repeat=3)]         # every list of three valid indices
            else:
                # lists whose ends span exactly their length while the interior is permuted or repeated, plus all orders of four
                lists += [list(t) for t in itertools.permutations(range(4))] + [[1, 3, 3, 4][:n], [-n, 2, 1, -(n - 3)], [0, 1, 1, 2], [2, 0, 0, 1, 3][:n]]
            for il in lists:
                for form in (list(il), np.array(il, dtype=np.intp)):
                    sub = back[form]
                    want = [sigs[j] for j in il]
                    if len(sub) != len(want) or np.dtype(sub.dtype) != np.dtype(dt) or not all(x.dtype == np.dtype(dt) and np.array_equal(x, y) for x, y in zip(sub, want)):
                        return f'index list {il} gives {[x.tolist() for x in sub]}, expected {[y.tolist() for y in want]}'
            mask = [j % 2 == 0 for j in range(n)]
            sub = back[np.array(mask, dtype=bool)]
            if [x.tolist() for x in sub] != [sigs[j].tolist() for j in range(n) if mask[j]]:
                return f'mask {mask} gives {[x.tolist() for x in sub]}'
    finally:
        if hasattr(coll, 'close'):
            coll.close()
        for f in (path, os.path.join(_ROOT, f'src_{tag}.gs')):
            if os.path.exists(f):
                os.remove(f)
    return None


def _cell(cont, idk, mi, ci):
    for ki in range(len(KSPECS)):
        for di in range(len(DTYPES)):
            for si in range(len(SHAPES)):
                if 'fast' in P and (ki + di + si) % int(P['fast']) != 0:
                    continue
                scratchdir.count_cell(f'roundtrip container={cont} ids={idk} meta={mi} comp={ci} kspec={ki} dtype={di} shape={si}')
                why = roundtrip(cont, idk, mi, ci, ki, di, si)
                if why:
                    return False, {'container': CONTAINERS[cont], 'ids': IDKINDS[idk], 'meta': mi, 'write options': COMPRESSIONS[ci], 'kmerspec': str(KSPECS[ki]), 'stored dtype': DTYPES[di],
                                   'signature lengths': SHAPES[si], 'why': why}
    return True, None


def _rt_run(cont, idk, mi, ci):
    a = (fork_int(cont, 0, len(CONTAINERS) - 1), fork_int(idk, 0, len(IDKINDS) - 1), fork_int(mi, 0, len(METAS) - 1), fork_int(ci, 0, len(COMPRESSIONS) - 1))
    with NoTracing():
        return _cell(*a)


def _c12_roundtrip(cont: int, idk: int, mi: int, ci: int) -> bool:
    """
    pre: 0 <= cont < len(CONTAINERS) and 0 <= idk < len(IDKINDS) and 0 <= mi < len(METAS) and 0 <= ci < len(COMPRESSIONS)
    pre: ('cont' not in P or cont == P['cont']) and ('ci' not in P or ci == P['ci'])
    post: _
    """
    return _rt_run(cont, idk, mi, ci)[0]


def explain_c12_roundtrip(cont, idk, mi, ci):
    return _rt_run(cont, idk, mi, ci)[1]


# ---- foreign files -------------------------------------------------------------------------------------------------

def _h5_other(path, variant):
    with h5py.File(path, 'w') as f:
        if variant == 0:
            pass                                        # an empty HDF5 file
        elif variant == 1:
            f.create_dataset('values', data=np.arange(10))
            f.create_dataset('bounds', data=np.array([0, 10]))
            f.create_dataset('ids', data=np.array([1]))
            f.attrs['kmerspec_k'] = 11                  # looks similar, but carries no format marker
            f.attrs['kmerspec_prefix'] = 'ATGAC'
        else:
            g = f.create_group('signatures')            # a marker somewhere else than on the root group
            g.attrs['gambit_signatures_version'] = 1


FOREIGN = ['empty file', 'plain text', 'FASTA', 'gzip-compressed FASTA', 'one byte', 'HDF5 magic followed by text', 'empty HDF5 file', 'HDF5 file with similar datasets but no format marker',
           'HDF5 file with a marker on a sub-group only', 'SQLite database']
NAMES = ['x.gs', 'x.h5', 'x.fasta', 'x']


def _foreign_concrete(kind, name_i):
    scratchdir.count_cell(f'foreign content={kind} name={name_i}')
    path = os.path.join(_ROOT, f'f{kind}_{NAMES[name_i]}')
    fasta = b'>contig1 test\nACGTACGTACGTTTGACCATG\n>contig2\nATGACNNNNACGT\n'
    if kind == 0:
        data = b''
    elif kind == 1:
        data = 'just some text é\n'.encode() * 20
    elif kind == 2:
        data = fasta
    elif kind == 3:
        data = gzip.compress(fasta)
    elif kind == 4:
        data = b'\x89'
    elif kind == 5:
        data = b'\x89HDF\r\n\x1a\n' + b'this is not really an HDF5 file\n' * 10
    elif kind == 9:
        data = b'SQLite format 3\x00' + bytes(200)
    else:
        data = None
    if data is None:
        _h5_other(path, kind - 6)
    else:
        with open(path, 'wb') as f:
            f.write(data)
    try:
        try:
            r = load_signatures(path)
        except SignaturesFileError:
            return True, None
        except OSError as e:
            # a file that merely starts with the HDF5 magic number is rejected by the HDF5 library itself; the property lists
            # empty / text / FASTA / other HDF5 files, for which the dedicated error is required
            if kind == 5:
                return True, None
            return False, f'{FOREIGN[kind]} ({NAMES[name_i]}): refused with {type(e).__name__} instead of the signature-file error'
        except Exception as e:   # noqa
            return False, f'{FOREIGN[kind]} ({NAMES[name_i]}): refused with {type(e).__name__}: {e} instead of the signature-file error'
        try:
            n = len(r)
        finally:
            r.close()
        return False, f'{FOREIGN[kind]} ({NAMES[name_i]}): loaded as a collection of {n} signatures'
    finally:
        if os.path.exists(path):
            os.remove(path)


def _foreign_run(kind, name_i):
    a = (fork_int(kind, 0, len(FOREIGN) - 1), fork_int(name_i, 0, len(NAMES) - 1))
    with NoTracing():
        return _foreign_concrete(*a)


def _c12_foreign(kind: int, name_i: int) -> bool:
    """
    pre: 0 <= kind < len(FOREIGN) and 0 <= name_i < len(NAMES)
    post: _
    """
    return _foreign_run(kind, name_i)[0]


def explain_c12_foreign(kind, name_i):
    return {'content': FOREIGN[kind], 'name': NAMES[name_i], 'why': _foreign_run(kind, name_i)[1]}
