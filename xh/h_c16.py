"""C16 harness (engine X): the real `gambit dist` callback, get_sequence_files, jaccarddist_matrix / jaccarddist_pairwise
(real kernels on small real signatures), dump_dmat_csv and load_dmat_csv (in-memory text file).  Stubs only where files
would be read: load_signatures and calc_file_signatures return real signature collections determined by the file / label.
The solver enumerates source configuration (3 x 5), sizes and which genomes are used (fork_int)."""
import os
import io
import json
import types
import click
import numpy as np

import gambit.cli.dist as cdist
from gambit.cluster import load_dmat_csv
from gambit.metric import jaccarddist
from gambit.sigs.base import SignatureList, AnnotatedSignatures, SignaturesMeta
from gambit.kmers import KmerSpec, DEFAULT_KMERSPEC
from xh.taxo import fork_int, NoTracing

P = json.loads(os.environ.get('XH_PARAMS', '{}') or '{}')
KS = KmerSpec(9, 'AT')          # pre-computed signature files and the database use non-default parameters
# labels are free text: one holds a comma and a double quote, one a comma only (CSV quoting is part of "labels every cell correctly")
NAMES = ['g0.fasta', 'dir/g1.fa.gz', 'g2, "two"', 'x/y/g3.fna', 'E. coli, K-12 g4.fa', 'g5.ffn.gz']
LABELS = ['g0', 'g1', 'g2, "two"', 'g3', 'E. coli, K-12 g4', 'g5']
# six genomes with pairwise distances that are not all distinct and include 0 (identical genomes) and 1 (disjoint)
SIGS = [np.array(x, dtype='u4') for x in ([1, 2, 3, 4], [1, 2, 3, 4], [3, 4, 5, 6, 7, 8], [100, 200], [], [2, 4, 6, 8, 100])]


def sig_for(name, shifted=False):
    # the same listed name under the reference base directory (--rdir) is a different file, hence a different genome
    return SIGS[(NAMES.index(name) + (1 if shifted else 0)) % len(SIGS)]


def _dist_concrete(qsrc, rsrc, nq, nr, qp, rp):
    qnames, rnames = [NAMES[p] for p in qp[:nq]], [NAMES[p] for p in rp[:nr]]
    sigfiles = {
        'q.gs': AnnotatedSignatures(SignatureList([sig_for(n) for n in qnames], KS, dtype=np.dtype('u4')), [f'Q:{LABELS[NAMES.index(n)]}' for n in qnames], SignaturesMeta(id_attr='key')),
        'r.gs': AnnotatedSignatures(SignatureList([sig_for(n) for n in rnames], KS, dtype=np.dtype('u4')), [f'R:{LABELS[NAMES.index(n)]}' for n in rnames], SignaturesMeta(id_attr='key')),
    }
    dbsigs = AnnotatedSignatures(SignatureList([sig_for(n) for n in rnames], KS, dtype=np.dtype('u4')), [f'DB:{LABELS[NAMES.index(n)]}' for n in rnames], SignaturesMeta(id_attr='key'))
    obj = types.SimpleNamespace(signatures=dbsigs, require_signatures=lambda: None)
    out = io.StringIO()
    params = dict(k=None, prefix=None, output=out, q=[], ql=None, qdir='.', qs=None, r=[], rl=None, rdir='.', rs=None,
                  square=False, use_db=False, progress=False, cores=None, dump_params=False)
    if qsrc == 0:
        params['q'] = list(qnames)
        qlabels = [LABELS[NAMES.index(n)] for n in qnames]
    elif qsrc == 1:
        params['ql'], params['qdir'] = io.StringIO('\n'.join(qnames) + '\n'), 'base'
        qlabels = [LABELS[NAMES.index(n)] for n in qnames]
    else:
        params['qs'] = 'q.gs'
        qlabels = list(sigfiles['q.gs'].ids)
    if rsrc == 0:
        params['r'] = list(rnames)
        rlabels = [LABELS[NAMES.index(n)] for n in rnames]
    elif rsrc == 1:
        params['rl'], params['rdir'] = io.StringIO('\n'.join(rnames) + '\n'), 'other/base'
        rlabels = [LABELS[NAMES.index(n)] for n in rnames]
    elif rsrc == 2:
        params['rs'] = 'r.gs'
        rlabels = list(sigfiles['r.gs'].ids)
    elif rsrc == 3:
        params['use_db'] = True
        rlabels = list(dbsigs.ids)
    else:
        params['square'] = True
        rnames, rlabels = qnames, qlabels

    def load_signatures(path, **kw):
        return sigfiles[str(path)]

    expected_spec = KS if (qsrc == 2 or rsrc in (2, 3)) else DEFAULT_KMERSPEC

    def calc_file_signatures(kspec, files, **kw):
        # files were resolved against the base directory; the genome is identified by the listed name.  A signature
        # computed with other k-mer parameters than the pre-computed side lives in another index space: model that by
        # a disjoint set of values, so that a parameter mix-up shows up in the distances
        out_ = []
        for f in files:
            p = str(f.path)
            match = [n for n in NAMES if p == n or p.endswith('/' + n)]
            s_ = sig_for(max(match, key=len), shifted=p.startswith('other/base/'))
            out_.append(s_ if kspec == expected_spec else (s_ + 100000).astype('u4'))
        return SignatureList(out_, kspec, dtype=np.dtype('u4'))

    saved = (cdist.load_signatures, cdist.calc_file_signatures, cdist.omp_set_num_threads)
    cdist.load_signatures, cdist.calc_file_signatures, cdist.omp_set_num_threads = load_signatures, calc_file_signatures, (lambda n: None)
    ctx = types.SimpleNamespace(params=params, command=cdist.dist_cmd, obj=obj)
    try:
        try:
            cdist.dist_cmd.callback.__wrapped__(ctx, **params)
        except click.ClickException as e:
            return False, 'click error: ' + e.message
        except Exception as e:   # noqa
            return False, 'exception: ' + repr(e)
    finally:
        cdist.load_signatures, cdist.calc_file_signatures, cdist.omp_set_num_threads = saved
    text = out.getvalue()
    import csv
    rows_ = list(csv.reader(io.StringIO(text, newline='')))       # independent reading of the CSV (stdlib), before the repository's own loader
    if not rows_ or rows_[0][1:] != [str(x) for x in rlabels] or [r_[0] for r_ in rows_[1:]] != [str(x) for x in qlabels] or any(len(r_) != len(rlabels) + 1 for r_ in rows_):
        return False, f'CSV read by the csv module: header {rows_[:1]}, row labels {[r_[:1] for r_ in rows_[1:]]}, row lengths {[len(r_) for r_ in rows_]}; expected columns {rlabels}, rows {qlabels}'
    values, row_ids, col_ids = load_dmat_csv(io.StringIO(text, newline=''))
    if row_ids != [str(x) for x in qlabels] or col_ids != [str(x) for x in rlabels]:
        return False, f'labels rows {row_ids} cols {col_ids}, expected {qlabels} / {rlabels}'
    for i, qn in enumerate(qnames):
        cells = rows_[1 + i][1:]
        for j, rn in enumerate(rnames):
            want = format(jaccarddist(sig_for(qn), sig_for(rn, shifted=(rsrc == 1))), '0.4f')
            if cells[j] != want:
                return False, f'cell ({qn},{rn}) is {cells[j]}, expected {want}'
            if rsrc == 4:
                if (i == j and float(cells[j]) != 0.0) or cells[j] != rows_[1 + j][1:][i]:
                    return False, 'square matrix not symmetric / diagonal not zero'
    return True, None


def _dist_run(qsrc, rsrc, nq, nr, q0, q1, q2, r0, r1, r2):
    a = [fork_int(qsrc, 0, 2), fork_int(rsrc, 0, 4), fork_int(nq, 1, 3), fork_int(nr, 1, 3)]
    qp = [fork_int(x, 0, len(NAMES) - 1) for x in (q0, q1, q2)]
    rp = [fork_int(x, 0, len(NAMES) - 1) for x in (r0, r1, r2)]
    with NoTracing():
        return _dist_concrete(*a, qp, rp)


def _c16_dist(qsrc: int, rsrc: int, nq: int, nr: int, q0: int, q1: int, q2: int, r0: int, r1: int, r2: int) -> bool:
    """
    pre: 0 <= qsrc <= 2 and 0 <= rsrc <= 4 and 1 <= nq <= 3 and 1 <= nr <= 3 and all(0 <= x < int(P.get('nnames', len(NAMES))) for x in (q0, q1, q2, r0, r1, r2))
    pre: (nq > 1 or q1 == 0) and (nq > 2 or q2 == 0) and (nr > 1 or r1 == 0) and (nr > 2 or r2 == 0) and (rsrc != 4 or (nr == 1 and r0 == 0))
    pre: ('qsrc' not in P or qsrc == P['qsrc']) and ('rsrc' not in P or rsrc == P['rsrc']) and nq <= int(P.get('maxn', 3)) and nr <= int(P.get('maxn', 3))
    post: _
    """
    return _dist_run(qsrc, rsrc, nq, nr, q0, q1, q2, r0, r1, r2)[0]


def explain_c16_dist(qsrc, rsrc, nq, nr, q0, q1, q2, r0, r1, r2):
    return {'query_source': ['-q', '--ql/--qdir', '--qs'][qsrc], 'ref_source': ['-r', '--rl/--rdir', '--rs', '--use-db', '--square'][rsrc],
            'queries': [NAMES[p] for p in (q0, q1, q2)[:nq]], 'refs': [NAMES[p] for p in (r0, r1, r2)[:nr]], 'why': _dist_run(qsrc, rsrc, nq, nr, q0, q1, q2, r0, r1, r2)[1]}
