"""C14 harness (engine X): the real click callbacks of `gambit dist`, `gambit query`, `gambit signatures create`,
`gambit tree` (reached as cmd.callback.__wrapped__(ctx, **params)) with loaders / calculators / distance functions /
writers replaced by recording stubs.  Symbolic: which option supplies each side, the k-mer parameters of every
pre-computed source and of the database, the optional explicit -k / -p.  KmerSpec objects come from a concrete pool
(chosen by the solver through fork_int) so that the symbolic path never evaluates 4**k."""
import os
import io
import json
import types
import click
import numpy as np

import gambit.cli.dist as cdist
import gambit.cli.query as cquery
import gambit.cli.signatures as csigs
import gambit.cli.tree as ctree
import gambit.cli.common as common
import gambit.query as gquery
import gambit.sigs.calc as gcalc
from gambit.kmers import KmerSpec, DEFAULT_KMERSPEC
from xh.taxo import fork_int, NoTracing

P = json.loads(os.environ.get('XH_PARAMS', '{}') or '{}')
POOL = [KmerSpec(11, 'ATGAC'), KmerSpec(11, 'ATGAT'), KmerSpec(9, 'ATGAC'), KmerSpec(9, 'AT')]      # differ in prefix, in k, in both
KPOOL = [None, 11, 9, 0]                     # 0 and '' are explicit values too (and can never match anything)
PPOOL = [None, 'ATGAC', 'ATGAT', 'AT', '']


class FakeSigs:
    def __init__(self, kmerspec, ids, origin):
        self.kmerspec, self.ids, self.origin = kmerspec, list(ids), origin
        self.meta = types.SimpleNamespace(id_attr='key')

    def __len__(self):
        return len(self.ids)

    def __iter__(self):
        # individual signatures remember which parameters they were built with, so that the recording distance stub
        # can tell even after the code under test has turned the collection into a plain list
        return iter([FakeSig(self.kmerspec) for _ in self.ids])


class FakeSig:
    def __init__(self, kmerspec):
        self.kmerspec = kmerspec


def _spec_of(x):
    if hasattr(x, 'kmerspec'):
        return x.kmerspec
    specs = {s.kmerspec for s in x}
    return specs.pop() if len(specs) == 1 else ('mixed', tuple(specs))


class Rec:
    def __init__(self):
        self.loaded = []
        self.calcs = []          # (kspec, nfiles)
        self.dists = []          # (query kmerspec, ref kmerspec)
        self.writes = []
        self.sigfiles = {}


def _ctx(cmd, params, obj):
    return types.SimpleNamespace(params=params, command=cmd, obj=obj)


class FakeCtxObj:
    def __init__(self, rec, dbspec):
        self.rec, self.dbspec = rec, dbspec
        self.signatures = FakeSigs(dbspec, ['r1', 'r2'], 'db')

    def require_signatures(self):
        pass

    def require_database(self):
        pass

    def get_database(self):
        return types.SimpleNamespace(signatures=self.signatures, genomes=[], genomeset=None, sig_indices=[0, 1])


def _patch(rec):
    """Install recording stubs; returns an undo function."""
    saved = []

    def setattr_(mod, name, val):
        saved.append((mod, name, getattr(mod, name)))
        setattr(mod, name, val)

    def load_signatures(path, **kw):
        s = rec.sigfiles[str(path)]
        rec.loaded.append(str(path))
        return s

    def calc_file_signatures(kspec, files, **kw):
        rec.calcs.append((kspec, len(files)))
        return FakeSigs(kspec, [f'f{i}' for i in range(len(files))], 'computed')

    def jaccarddist_matrix(queries, refs, **kw):
        rec.dists.append((_spec_of(queries), _spec_of(refs)))
        return np.zeros((len(queries), len(refs)), dtype=np.float32)

    def jaccarddist_pairwise(sigs, **kw):
        rec.dists.append((sigs.kmerspec, sigs.kmerspec))
        return np.zeros((len(sigs), len(sigs)), dtype=np.float32)

    def dump_dmat_csv(output, dmat, row_ids, col_ids, **kw):
        rec.writes.append(('dmat', len(row_ids), len(col_ids)))

    def dump_signatures(output, sigs, **kw):
        rec.writes.append(('sigs', sigs.kmerspec))

    def get_result_item(db, params, dists, input):
        return ('item', input)

    class Exporter:
        def export(self, output, results):
            rec.writes.append(('results', len(results.items)))

    for mod in (cdist, cquery, csigs, ctree):
        if hasattr(mod, 'load_signatures'):
            setattr_(mod, 'load_signatures', load_signatures)
        if hasattr(mod, 'calc_file_signatures'):
            setattr_(mod, 'calc_file_signatures', calc_file_signatures)
        if hasattr(mod, 'jaccarddist_matrix'):
            setattr_(mod, 'jaccarddist_matrix', jaccarddist_matrix)
        if hasattr(mod, 'jaccarddist_pairwise'):
            setattr_(mod, 'jaccarddist_pairwise', jaccarddist_pairwise)
        if hasattr(mod, 'omp_set_num_threads'):
            setattr_(mod, 'omp_set_num_threads', lambda n: None)
    setattr_(cdist, 'dump_dmat_csv', dump_dmat_csv)
    setattr_(csigs, 'dump_signatures', dump_signatures)
    setattr_(cquery, 'get_exporter', lambda fmt: Exporter())
    setattr_(gcalc, 'calc_file_signatures', calc_file_signatures)       # query_parse imports it at call time
    setattr_(gquery, 'jaccarddist_matrix', jaccarddist_matrix)
    setattr_(gquery, 'get_result_item', get_result_item)
    setattr_(ctree, 'hclust', lambda dmat: 'link')
    setattr_(ctree, 'linkage_to_bio_tree', lambda link, labels: 'tree')
    setattr_(ctree.Phylo, 'write', lambda tree, f, fmt: rec.writes.append(('tree',)))

    def undo():
        for mod, name, val in reversed(saved):
            setattr(mod, name, val)
    return undo


def _call(cmd, ctx, **params):
    """('ok', None) | ('click-error', msg) | ('exception', repr)."""
    try:
        cmd.callback.__wrapped__(ctx, **params)
        return 'ok', None
    except click.ClickException as e:
        return 'click-error', e.message
    except Exception as e:   # noqa
        return 'exception', repr(e)


def _explicit(ki, pi):
    k, p = KPOOL[ki], PPOOL[pi]
    if k is None and p is None:
        return None, False
    if k is None or p is None:
        return None, True            # incomplete: must be rejected
    if k == 0 or p == '':
        return None, True            # explicit but unusable, and different from every pre-computed source: must be rejected
    return KmerSpec(k, p), False


# ---------------------------------------------------------------------------------------------------- gambit dist

def _dist_concrete(qsrc, rsrc, qspec_i, rspec_i, db_i, ki, pi):
    rec = Rec()
    rec.sigfiles = {'q.gs': FakeSigs(POOL[qspec_i], ['qa', 'qb'], 'qs'), 'r.gs': FakeSigs(POOL[rspec_i], ['ra', 'rb', 'rc'], 'rs')}
    obj = FakeCtxObj(rec, POOL[db_i])
    params = dict(k=KPOOL[ki], prefix=PPOOL[pi], output='out.csv', q=[], ql=None, qdir='.', qs=None, r=[], rl=None, rdir='.', rs=None,
                  square=False, use_db=False, progress=False, cores=None, dump_params=False)
    if qsrc == 0:
        params['q'] = ['a.fa', 'b.fa']
    elif qsrc == 1:
        params['ql'] = io.StringIO('a.fa\nb.fa\n')
    else:
        params['qs'] = 'q.gs'
    if rsrc == 0:
        params['r'] = ['x.fa', 'y.fa', 'z.fa']
    elif rsrc == 1:
        params['rl'] = io.StringIO('x.fa\ny.fa\nz.fa\n')
    elif rsrc == 2:
        params['rs'] = 'r.gs'
    elif rsrc == 3:
        params['use_db'] = True
    else:
        params['square'] = True
    undo = _patch(rec)
    try:
        status, msg = _call(cdist.dist_cmd, _ctx(cdist.dist_cmd, params, obj), **params)
    finally:
        undo()
    explicit, incomplete = _explicit(ki, pi)
    qpre = POOL[qspec_i] if qsrc == 2 else None
    rpre = POOL[rspec_i] if rsrc == 2 else (POOL[db_i] if rsrc == 3 else None)
    must_fail = incomplete or (explicit is not None and ((qpre is not None and qpre != explicit) or (rpre is not None and rpre != explicit))) \
        or (explicit is None and qpre is not None and rpre is not None and qpre != rpre)
    detail = dict(status=status, msg=msg, calcs=[(str(k), n) for k, n in rec.calcs], dists=[(str(a), str(b)) for a, b in rec.dists], writes=rec.writes,
                  explicit=str(explicit), incomplete=incomplete, query_precomputed=str(qpre), ref_precomputed=str(rpre))
    if must_fail:
        ok = status == 'click-error' and not rec.dists and not rec.writes
        return ok, detail
    used = explicit or qpre or rpre or DEFAULT_KMERSPEC
    ok = (status == 'ok' and len(rec.dists) == 1 and rec.dists[0][0] == used and rec.dists[0][1] == used and all(k == used for k, _ in rec.calcs)
          and len(rec.writes) == 1 and len(rec.calcs) == (1 if qpre is None else 0) + (1 if (rpre is None and rsrc != 4) else 0))
    return ok, detail


def _dist_run(qsrc, rsrc, qspec_i, rspec_i, db_i, ki, pi):
    args = [fork_int(qsrc, 0, 2), fork_int(rsrc, 0, 4), fork_int(qspec_i, 0, 3), fork_int(rspec_i, 0, 3), fork_int(db_i, 0, 3), fork_int(ki, 0, 3), fork_int(pi, 0, 4)]
    with NoTracing():
        return _dist_concrete(*args)


def _c14_dist(qsrc: int, rsrc: int, qspec_i: int, rspec_i: int, db_i: int, ki: int, pi: int) -> bool:
    """
    pre: 0 <= qsrc <= 2 and 0 <= rsrc <= 4 and 0 <= qspec_i <= 3 and 0 <= rspec_i <= 3 and 0 <= db_i <= 3 and 0 <= ki <= 3 and 0 <= pi <= 4
    pre: (qsrc == 2 or qspec_i == 0) and (rsrc == 2 or rspec_i == 0) and (rsrc == 3 or db_i == 0)
    post: _
    """
    return _dist_run(qsrc, rsrc, qspec_i, rspec_i, db_i, ki, pi)[0]


def explain_c14_dist(qsrc, rsrc, qspec_i, rspec_i, db_i, ki, pi):
    return {'command': 'dist', 'query_source': ['-q', '--ql', '--qs'][qsrc], 'ref_source': ['-r', '--rl', '--rs', '--use-db', '--square'][rsrc],
            'qs_params': str(POOL[qspec_i]), 'rs_params': str(POOL[rspec_i]), 'db_params': str(POOL[db_i]), '-k': KPOOL[ki], '-p': PPOOL[pi],
            'observed': _dist_run(qsrc, rsrc, qspec_i, rspec_i, db_i, ki, pi)[1]}


# ---------------------------------------------------------------------------------------------------- gambit query

def _query_concrete(src, sig_i, db_i, strict):
    rec = Rec()
    rec.sigfiles = {'q.gs': FakeSigs(POOL[sig_i], ['qa', 'qb'], 'sigfile')}
    obj = FakeCtxObj(rec, POOL[db_i])
    params = dict(listfile=None, ldir='.', files_arg=[], sigfile=None, output=io.StringIO(), outfmt='csv', strict=strict, progress=False, cores=None)
    if src == 0:
        params['files_arg'] = ['a.fa', 'b.fa']
    elif src == 1:
        params['listfile'] = io.StringIO('a.fa\nb.fa\n')
    else:
        params['sigfile'] = 'q.gs'
    undo = _patch(rec)
    try:
        status, msg = _call(cquery.query_cmd, _ctx(cquery.query_cmd, params, obj), **params)
    finally:
        undo()
    detail = dict(status=status, msg=msg, calcs=[(str(k), n) for k, n in rec.calcs], dists=[(str(a), str(b)) for a, b in rec.dists], writes=rec.writes)
    if src == 2 and POOL[sig_i] != POOL[db_i]:
        return (status == 'click-error' and not rec.dists and not rec.writes), detail
    db = POOL[db_i]
    ok = (status == 'ok' and len(rec.dists) == 1 and rec.dists[0] == (db, db) and all(k == db for k, _ in rec.calcs)
          and len(rec.calcs) == (0 if src == 2 else 1) and rec.writes == [('results', 2)])
    return ok, detail


def _query_run(src, sig_i, db_i, strict):
    args = [fork_int(src, 0, 2), fork_int(sig_i, 0, 3), fork_int(db_i, 0, 3)]
    with NoTracing():
        return _query_concrete(*args, bool(strict))


def _c14_query(src: int, sig_i: int, db_i: int, strict: bool) -> bool:
    """
    pre: 0 <= src <= 2 and 0 <= sig_i <= 3 and 0 <= db_i <= 3 and (src == 2 or sig_i == 0)
    post: _
    """
    return _query_run(src, sig_i, db_i, strict)[0]


def explain_c14_query(src, sig_i, db_i, strict):
    return {'command': 'query', 'source': ['GENOMES', '-l', '-s'][src], 'sigfile_params': str(POOL[sig_i]), 'db_params': str(POOL[db_i]),
            'observed': _query_run(src, sig_i, db_i, strict)[1]}


# ---------------------------------------------------------------------------------------------------- signatures create / tree

def _create_concrete(src, db_i, ki, pi, db_params):
    rec = Rec()
    obj = FakeCtxObj(rec, POOL[db_i])
    params = dict(listfile=None, ldir='.', files_arg=[], output='o.gs', prefix=PPOOL[pi], k=KPOOL[ki], meta_file=None, ids_file=None,
                  db_params=db_params, progress=False, cores=None, dump_params=False)
    if src == 0:
        params['files_arg'] = ['a.fa', 'b.fa']
    else:
        params['listfile'] = io.StringIO('a.fa\nb.fa\n')
    undo = _patch(rec)
    saved = csigs.AnnotatedSignatures
    csigs.AnnotatedSignatures = lambda sigs, ids, meta: sigs
    try:
        status, msg = _call(csigs.create, _ctx(csigs.create, params, obj), **params)
    finally:
        csigs.AnnotatedSignatures = saved
        undo()
    explicit, incomplete = _explicit(ki, pi)
    detail = dict(status=status, msg=msg, calcs=[(str(k), n) for k, n in rec.calcs], writes=[(w[0], str(w[1])) for w in rec.writes])
    if incomplete or (db_params and explicit is not None):
        return (status == 'click-error' and not rec.calcs and not rec.writes), detail
    used = explicit or (POOL[db_i] if db_params else DEFAULT_KMERSPEC)
    return (status == 'ok' and rec.calcs == [(used, 2)] and rec.writes == [('sigs', used)]), detail


def _create_run(src, db_i, ki, pi, db_params):
    args = [fork_int(src, 0, 1), fork_int(db_i, 0, 3), fork_int(ki, 0, 3), fork_int(pi, 0, 4)]
    with NoTracing():
        return _create_concrete(*args, bool(db_params))


def _c14_create(src: int, db_i: int, ki: int, pi: int, db_params: bool) -> bool:
    """
    pre: 0 <= src <= 1 and 0 <= db_i <= 3 and 0 <= ki <= 3 and 0 <= pi <= 4
    post: _
    """
    return _create_run(src, db_i, ki, pi, db_params)[0]


def explain_c14_create(src, db_i, ki, pi, db_params):
    return {'command': 'signatures create', '-k': KPOOL[ki], '-p': PPOOL[pi], '--db-params': db_params, 'db_params': str(POOL[db_i]),
            'observed': _create_run(src, db_i, ki, pi, db_params)[1]}


def _tree_concrete(src, sig_i, ki, pi):
    rec = Rec()
    rec.sigfiles = {'t.gs': FakeSigs(POOL[sig_i], ['a', 'b', 'c'], 'sigfile')}
    obj = FakeCtxObj(rec, POOL[0])
    params = dict(listfile=None, ldir='.', files_arg=[], sigfile=None, k=KPOOL[ki], prefix=PPOOL[pi], progress=False, cores=None)
    if src == 0:
        params['files_arg'] = ['a.fa', 'b.fa']
    elif src == 1:
        params['listfile'] = io.StringIO('a.fa\nb.fa\n')
    else:
        params['sigfile'] = 't.gs'
    undo = _patch(rec)
    try:
        status, msg = _call(ctree.tree_cmd, _ctx(ctree.tree_cmd, params, obj), **params)
    finally:
        undo()
    explicit, incomplete = _explicit(ki, pi)
    detail = dict(status=status, msg=msg, calcs=[(str(k), n) for k, n in rec.calcs], dists=[(str(a), str(b)) for a, b in rec.dists], writes=rec.writes)
    if src == 2:
        # a single source: nothing to mismatch; all pairs come from the same file
        return (status == 'ok' and rec.dists == [(POOL[sig_i], POOL[sig_i])] and not rec.calcs), detail
    if incomplete:
        return (status == 'click-error' and not rec.dists and not rec.writes), detail
    used = explicit or DEFAULT_KMERSPEC
    return (status == 'ok' and rec.calcs == [(used, 2)] and rec.dists == [(used, used)]), detail


def _tree_run(src, sig_i, ki, pi):
    args = [fork_int(src, 0, 2), fork_int(sig_i, 0, 3), fork_int(ki, 0, 3), fork_int(pi, 0, 4)]
    with NoTracing():
        return _tree_concrete(*args)


def _c14_tree(src: int, sig_i: int, ki: int, pi: int) -> bool:
    """
    pre: 0 <= src <= 2 and 0 <= sig_i <= 3 and 0 <= ki <= 3 and 0 <= pi <= 4 and (src != 2 or (ki <= 2 and pi <= 3))
    post: _
    """
    return _tree_run(src, sig_i, ki, pi)[0]


def explain_c14_tree(src, sig_i, ki, pi):
    return {'command': 'tree', 'source': ['GENOMES', '-l', '-s'][src], '-k': KPOOL[ki], '-p': PPOOL[pi], 'observed': _tree_run(src, sig_i, ki, pi)[1]}
