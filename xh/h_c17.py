"""C17 harness (engine X).

(a) linkage_to_bio_tree on every linkage matrix satisfying scipy's documented contract for n leaves: the merge order is a
    symbolic choice per step, the heights are symbolic non-decreasing integers (all order types, ties and zeros included).
(b) the real `gambit tree` callback end to end on genomes from a pool (real jaccarddist_pairwise, real scipy UPGMA, real
    Newick writer), parsed back and compared with an independent UPGMA that explores every tie-breaking order.
Choices are case-split by the solver (fork_int); each cell then runs the real code natively."""
import os
import io
import sys
import json
import types
import itertools
import numpy as np
from Bio import Phylo

import gambit.cli.tree as ctree
from gambit.cluster import linkage_to_bio_tree, hclust
from gambit.metric import jaccarddist
from gambit.sigs.base import SignatureList, AnnotatedSignatures, SignaturesMeta
from gambit.kmers import DEFAULT_KMERSPEC
from xh.taxo import fork_int, NoTracing

P = json.loads(os.environ.get('XH_PARAMS', '{}') or '{}')
N = int(P.get('n', 4))
HMAX = N            # heights 0..N realise every weak order of the n-1 merge heights


def check_tree(tree, labels, coph, tol=0.0):
    """coph[i][j]: expected path length between leaves i and j.  Returns (ok, why)."""
    leaves = tree.get_terminals()
    names = [l.name for l in leaves]
    if sorted(names) != sorted(labels) or len(names) != len(labels):
        return False, f'leaves {names} vs labels {labels}'
    if not tree.rooted:
        return False, 'tree not rooted'
    for cl in tree.find_clades():
        if cl.clades and len(cl.clades) != 2:
            return False, 'not binary'
        if cl is not tree.root and (cl.branch_length is None or cl.branch_length < -tol):
            return False, f'negative / missing branch length {cl.branch_length}'
    depths = tree.depths()
    dl = [depths[l] for l in leaves]
    if max(dl) - min(dl) > tol:
        return False, f'leaves not equidistant from the root: {dl}'
    for a, b in itertools.combinations(range(len(labels)), 2):
        la = [l for l in leaves if l.name == labels[a]][0]
        lb = [l for l in leaves if l.name == labels[b]][0]
        d = tree.distance(la, lb)
        if abs(d - coph[a][b]) > tol:
            return False, f'path {labels[a]}-{labels[b]} is {d}, expected {coph[a][b]}'
    return True, None


# ---- (a) linkage contract -----------------------------------------------------------------------------------------

def _linkage_concrete(picks, heights):
    n = N
    active = list(range(n))
    members = {i: [i] for i in range(n)}
    rows = []
    coph = [[0.0] * n for _ in range(n)]
    h_prev = 0
    for t in range(n - 1):
        # pick an unordered pair of active clusters by index into the list of pairs
        pairs = list(itertools.combinations(active, 2))
        a, b = pairs[picks[t] % len(pairs)]
        h = h_prev + heights[t]
        h_prev = h
        new = n + t
        members[new] = members[a] + members[b]
        for x in members[a]:
            for y in members[b]:
                coph[x][y] = coph[y][x] = 2.0 * h
        rows.append([float(a), float(b), float(h), float(len(members[new]))])
        active = [c for c in active if c not in (a, b)] + [new]
    link = np.array(rows, dtype=float).reshape(n - 1, 4)
    labels = [f'L{i}' for i in range(n)]
    tree = linkage_to_bio_tree(link, labels)
    ok, why = check_tree(tree, labels, coph)
    return ok, f'{why}; linkage {rows}'


def _linkage_run(p0, p1, p2, p3, h0, h1, h2, h3):
    picks = [fork_int(p, 0, N * (N - 1) // 2 - 1) for p in (p0, p1, p2, p3)[:N - 1]]
    hs = [fork_int(h, 0, 2) for h in (h0, h1, h2, h3)[:N - 1]]
    with NoTracing():
        return _linkage_concrete(picks, hs)


def _c17_linkage(p0: int, p1: int, p2: int, p3: int, h0: int, h1: int, h2: int, h3: int) -> bool:
    """
    pre: all(0 <= p < N * (N - 1) // 2 for p in (p0, p1, p2, p3)) and all(0 <= h <= 2 for h in (h0, h1, h2, h3))
    pre: all(p == 0 for p in (p0, p1, p2, p3)[N - 1:]) and all(h == 0 for h in (h0, h1, h2, h3)[N - 1:])
    pre: p1 < (N - 1) * (N - 2) // 2 or N < 3
    pre: p2 < (N - 2) * (N - 3) // 2 or N < 4
    pre: p3 < (N - 3) * (N - 4) // 2 or N < 5
    post: _
    """
    return _linkage_run(p0, p1, p2, p3, h0, h1, h2, h3)[0]


def explain_c17_linkage(p0, p1, p2, p3, h0, h1, h2, h3):
    return {'n': N, 'why': _linkage_run(p0, p1, p2, p3, h0, h1, h2, h3)[1]}


# ---- (b) whole command --------------------------------------------------------------------------------------------

NAMES = ['g0.fasta', 'dir/g1.fa.gz', 'g2', 'x/y/g3.fna', 'g4.fa', 'g5.ffn.gz']
LABELS = ['g0', 'g1', 'g2', 'g3', 'g4', 'g5']
SIGS = [np.array(x, dtype='u4') for x in ([1, 2, 3, 4], [1, 2, 3, 4], [3, 4, 5, 6, 7, 8], [100, 200], [1, 2, 5, 6], [2, 4, 6, 8, 100])]


def upgma_all(d):
    """All cophenetic matrices average linkage can produce on distance matrix d (every tie-breaking order)."""
    n = len(d)
    results = []

    def rec(clusters, dist, coph):
        if len(clusters) == 1:
            results.append(coph)
            return
        keys = list(clusters)
        best = min(dist[frozenset((a, b))] for a, b in itertools.combinations(keys, 2))
        for a, b in itertools.combinations(keys, 2):
            if dist[frozenset((a, b))] != best:
                continue
            new = max(keys) + 1
            c2 = {k: v for k, v in clusters.items() if k not in (a, b)}
            c2[new] = clusters[a] + clusters[b]
            d2 = {k: v for k, v in dist.items() if not (a in k or b in k)}
            for k in c2:
                if k != new:
                    na, nb = len(clusters[a]), len(clusters[b])
                    d2[frozenset((k, new))] = (dist[frozenset((k, a))] * na + dist[frozenset((k, b))] * nb) / (na + nb)
            co = [row[:] for row in coph]
            for x in clusters[a]:
                for y in clusters[b]:
                    co[x][y] = co[y][x] = 2.0 * best      # path length = twice the merge height (scipy linkage height = cluster distance)
            rec(c2, d2, co)
    rec({i: [i] for i in range(n)}, {frozenset((i, j)): float(d[i][j]) for i, j in itertools.combinations(range(n), 2)}, [[0.0] * n for _ in range(n)])
    return results


def _cmd_concrete(n, picks, channel):
    names = [NAMES[p] for p in picks[:n]]
    labels = [LABELS[p] for p in picks[:n]]
    sigs = [SIGS[p] for p in picks[:n]]
    params = dict(listfile=None, ldir='.', files_arg=[], sigfile=None, k=None, prefix=None, progress=False, cores=None)
    if channel == 0:
        params['files_arg'] = names
    elif channel == 1:
        params['listfile'] = io.StringIO('\n'.join(names) + '\n')
    else:
        params['sigfile'] = 't.gs'
        # stored IDs are used verbatim as labels, also when they look like paths or file names
        labels = [f'S:{nm}' for nm in names]

    def load_signatures(path, **kw):
        return AnnotatedSignatures(SignatureList(sigs, DEFAULT_KMERSPEC, dtype=np.dtype('u4')), labels, SignaturesMeta())

    def calc_file_signatures(kspec, files, **kw):
        out = []
        for f in files:
            p = str(f.path)
            match = [nm for nm in NAMES if p == nm or p.endswith('/' + nm)]
            out.append(SIGS[NAMES.index(max(match, key=len))])
        return SignatureList(out, kspec, dtype=np.dtype('u4'))
    saved = (ctree.load_signatures, ctree.calc_file_signatures, ctree.omp_set_num_threads, sys.stdout)
    ctree.load_signatures, ctree.calc_file_signatures, ctree.omp_set_num_threads = load_signatures, calc_file_signatures, (lambda c: None)
    buf = io.StringIO()
    sys.stdout = buf
    ctx = types.SimpleNamespace(params=params, command=ctree.tree_cmd, obj=None)
    try:
        try:
            ctree.tree_cmd.callback.__wrapped__(ctx, **params)
        except Exception as e:   # noqa
            return False, 'exception: ' + repr(e)
    finally:
        ctree.load_signatures, ctree.calc_file_signatures, ctree.omp_set_num_threads, sys.stdout = saved
    text = buf.getvalue()
    try:
        tree = Phylo.read(io.StringIO(text), 'newick')
    except Exception as e:   # noqa
        return False, f'output is not a Newick tree: {text!r} ({e!r})'
    tree.rooted = True
    d = [[float(jaccarddist(a, b)) for b in sigs] for a in sigs]
    whys = []
    for coph in upgma_all(d):
        ok, why = check_tree(tree, labels, coph, tol=4e-5)         # the Newick writer prints five decimals per branch
        if ok:
            return True, None
        whys.append(why)
    return False, f'{text.strip()} : {whys[:2]}'


def _cmd_run(n, p0, p1, p2, p3, channel):
    nn = fork_int(n, 2, 4)
    picks = [fork_int(p, 0, len(NAMES) - 1) for p in (p0, p1, p2, p3)]
    cc = fork_int(channel, 0, 2)
    with NoTracing():
        return _cmd_concrete(nn, picks, cc)


def _c17_cmd(n: int, p0: int, p1: int, p2: int, p3: int, channel: int) -> bool:
    """
    pre: 2 <= n <= int(P.get('maxn', 4)) and all(0 <= p < len(NAMES) for p in (p0, p1, p2, p3)) and 0 <= channel <= 2
    pre: p0 != p1 and p0 != p2 and p0 != p3 and p1 != p2 and p1 != p3 and p2 != p3 and ('channel' not in P or channel == P['channel'])
    post: _
    """
    return _cmd_run(n, p0, p1, p2, p3, channel)[0]


def explain_c17_cmd(n, p0, p1, p2, p3, channel):
    return {'genomes': [NAMES[p] for p in (p0, p1, p2, p3)[:n]], 'channel': ['positional', 'list file', 'signature file'][channel], 'why': _cmd_run(n, p0, p1, p2, p3, channel)[1]}
