"""Per-process scratch directories for harnesses that write real files.  CrossHair worker processes do not always run atexit
handlers, so besides registering one, every new directory creation first removes sibling directories of the same kind that are
older than an hour (no registered command keeps one harness process alive that long)."""
import os
import time
import shutil
import atexit

ROOT = os.path.join(os.path.dirname(os.path.dirname(os.path.abspath(__file__))), 'scratch')


def fresh(kind):
    os.makedirs(ROOT, exist_ok=True)
    now = time.time()
    for d in os.listdir(ROOT):
        if d.startswith(kind + '_'):
            p = os.path.join(ROOT, d)
            try:
                if now - os.path.getmtime(p) > 3600:
                    shutil.rmtree(p, ignore_errors=True)
            except OSError:
                pass
    path = os.path.join(ROOT, f'{kind}_{os.getpid()}')
    shutil.rmtree(path, ignore_errors=True)
    os.makedirs(path)
    atexit.register(lambda: shutil.rmtree(path, ignore_errors=True))
    return path


def count_cell(key):
    """Record that the concrete cell `key` was executed (see xh/runner.py)."""
    f = os.environ.get('XH_COUNT_FILE')
    if f:
        with open(f, 'a') as fh:
            fh.write(str(key).replace('\n', ' ') + '\n')
