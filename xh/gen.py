"""Generates per-size harness files (exact arity, no unused symbolic arguments) from templates into /verif/scratch."""
import os

VERIF = os.path.dirname(os.path.dirname(os.path.abspath(__file__)))
OUT = os.path.join(VERIF, 'scratch')


def names(prefix, n):
    return [f'{prefix}{i}' for i in range(n)]


def args(prefix, n, typ):
    return ', '.join(f'{x}: {typ}' for x in names(prefix, n))


def lst(prefix, n):
    return '[' + ', '.join(names(prefix, n)) + ']'


def emit(template_path, out_name, subst):
    os.makedirs(OUT, exist_ok=True)
    src = open(template_path).read()
    for k, v in subst.items():
        src = src.replace('{{' + k + '}}', v)
    path = os.path.join(OUT, out_name)
    with open(path, 'w') as f:
        f.write(src)
    return path
