"""Helpers shared by the taxonomy harnesses (C03, C09, C10): real transient Taxon / AnnotatedGenome objects over a forest
given as a parent array, canonical forest enumeration, fork-to-concrete, numpy contract stubs, list-based oracle."""
import itertools
import sqlalchemy.orm

from gambit.db.models import Taxon, AnnotatedGenome, Genome, ReferenceGenomeSet

sqlalchemy.orm.configure_mappers()
_warm = Taxon(key='warm', name='warm')      # mapper initialisation outside tracing
_warm2 = AnnotatedGenome(genome=Genome(key='warm', description='w'), taxon=_warm)


try:
    from crosshair.tracers import NoTracing
    with NoTracing():
        pass
except Exception:      # plain interpreter without crosshair: a no-op context
    import contextlib
    NoTracing = contextlib.nullcontext


def fork_int(x, lo, hi):
    """Returns a concrete int equal to x (one path per value)."""
    for v in range(lo, hi + 1):
        if x == v:
            return v
    raise AssertionError('fork_int: value out of range')


def forests(n):
    """All rooted forests on n nodes up to isomorphism, as parent arrays with parent[i] < i (or -1), in canonical form.
    Counts: 1, 2, 4, 9, 20, 48 for n = 1..6 (OEIS A000081 shifted)."""
    def canon(parent):
        ch = {i: [] for i in range(-1, len(parent))}
        for i, p in enumerate(parent):
            ch[p].append(i)

        def enc(v):
            return '(' + ''.join(sorted(enc(c) for c in ch[v])) + ')'
        return enc(-1)
    seen, out = set(), []
    for parent in itertools.product(*[range(-1, i) for i in range(n)]):
        c = canon(parent)
        if c not in seen:
            seen.add(c)
            out.append(list(parent))
    return out


def build_taxa(parent, thresholds, reports=None):
    """thresholds[i]: float or None.  Real Taxon objects, linked through the real relationship."""
    taxa = []
    for i, p in enumerate(parent):
        t = Taxon(id=i + 1, key=f't{i}', name=f'taxon{i}', rank=None, ncbi_id=None)
        t.distance_threshold = thresholds[i]
        t.report = True if reports is None else reports[i]
        if p >= 0:
            t.parent = taxa[p]
        taxa.append(t)
    return taxa


def build_genomes(taxa, assign):
    gs = []
    for j, a in enumerate(assign):
        g = AnnotatedGenome(genome=Genome(key=f'g{j}', description=f'genome {j}'), taxon=taxa[a], organism=f'org{j}')
        gs.append(g)
    return gs


class World:
    """Taxa / genomes built once per forest shape at import time (outside tracing).  Per path only the plain instance
    dictionaries are updated (threshold, report flag, genome->taxon link), which is what the instrumented attributes read."""
    def __init__(self, parent, ngenomes):
        self.parent = list(parent)
        self.taxa = build_taxa(parent, [None] * len(parent))
        self.genomes = build_genomes(self.taxa, [0] * ngenomes)
        self.tindex = {id(t): i for i, t in enumerate(self.taxa)}
        self.gindex = {id(g): i for i, g in enumerate(self.genomes)}

    def configure(self, thresholds, reports, assign):
        for t, th, r in zip(self.taxa, thresholds, reports):
            t.__dict__['distance_threshold'] = th
            t.__dict__['report'] = r
        for g, a in zip(self.genomes, assign):
            g.__dict__['taxon'] = self.taxa[a]

    def ti(self, t):
        return None if t is None else self.tindex[id(t)]

    def gi(self, g):
        return None if g is None else self.gindex[id(g)]


def lineage(parent, t):
    out = []
    while t >= 0:
        out.append(t)
        t = parent[t]
    return out


class Arr(list):
    """List with the bit of numpy indexing the code under test may use on a distance row / index vector:
    integer, slice and integer-sequence ("fancy") indexing."""
    def __getitem__(self, i):
        if isinstance(i, (list, tuple)):
            return Arr([list.__getitem__(self, j) for j in i])
        r = list.__getitem__(self, i)
        return Arr(r) if isinstance(i, slice) else r


class NpStub:
    """Contract-level stand-ins for the numpy calls made by classify / get_result_item on a distance row.

    argmin: first index of the minimum (documented).
    argsort: with kind 'stable' / 'mergesort' the unique stable order.  With any other kind numpy promises only *a*
    permutation that sorts the input: ties may come out in any order.  That freedom is the list `tiebreak` of symbolic
    integers supplied by the harness: equal values are ordered by (tiebreak[j], j), so every sorting permutation is
    reachable, and the choice is only looked at if the code under test actually requests an unstable sort."""
    inf = float('inf')

    plain = True       # return plain lists from stable sorts (cheaper under tracing); Arr only where fancy indexing may follow

    def __init__(self, tiebreak=None):
        self.tiebreak = tiebreak
        self.argsort_kinds = []

    @staticmethod
    def argmin(ds):
        best = 0
        for i in range(1, len(ds)):
            if ds[i] < ds[best]:
                best = i
        return best

    def argsort(self, ds, axis=-1, kind=None, order=None):
        self.argsort_kinds.append(kind)
        n = len(ds)
        stable = kind in ('stable', 'mergesort') or self.tiebreak is None
        tb = self.tiebreak

        def less(a, b):     # strict "a before b"
            if ds[a] < ds[b]:
                return True
            if ds[b] < ds[a]:
                return False
            if stable:
                return a < b
            if tb[a] < tb[b]:
                return True
            if tb[b] < tb[a]:
                return False
            return a < b
        idx = list(range(n))
        for i in range(1, n):           # insertion sort: only order comparisons on the (possibly symbolic) values
            j = i
            while j > 0 and less(idx[j], idx[j - 1]):
                idx[j], idx[j - 1] = idx[j - 1], idx[j]
                j -= 1
        return idx if (stable and self.plain) else Arr(idx)

    def argpartition(self, ds, kth, axis=-1, kind='introselect', order=None):
        """Contract: element kth is in its sorted position, smaller ones before, larger ones after, order otherwise
        arbitrary.  Any fully sorted order with ties broken arbitrarily is one admissible result; it exposes the
        freedom that matters (which of several tied elements end up before position kth)."""
        return self.argsort(ds, kind=None)

    @staticmethod
    def sort(a, axis=-1, kind=None, order=None):
        out = list(a)
        for i in range(1, len(out)):
            j = i
            while j > 0 and out[j] < out[j - 1]:
                out[j], out[j - 1] = out[j - 1], out[j]
                j -= 1
        return Arr(out)

    # scalar constructors: the harness values are exact in every float width, so these are identities on them
    @staticmethod
    def float32(x):
        return x

    float64 = float32

    @staticmethod
    def asarray(a, dtype=None):
        return a if isinstance(a, Arr) else Arr(a)

    array = asarray


def sorts(perm, ds):
    """perm is a permutation of range(len(ds)) putting ds in non-decreasing order."""
    n = len(ds)
    if len(perm) != n or sorted(perm) != list(range(n)):
        return False
    return all(ds[perm[i]] <= ds[perm[i + 1]] for i in range(n - 1))
