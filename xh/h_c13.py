"""C13 harness (engine X): real gambit.sigs.calc.calc_file_signatures with a stub executor whose completion order is an
arbitrary permutation (all that concurrent.futures.as_completed promises), a file that may fail, every concurrency mode."""
import os
import json
import numpy as np
from concurrent.futures import Executor

import gambit.sigs.calc as calc
from gambit.kmers import KmerSpec
from gambit.seq import SequenceFile

P = json.loads(os.environ.get('XH_PARAMS', '{}') or '{}')
N = int(P.get('n', 3))
KSPEC = KmerSpec(11, 'ATGAC')
# real files of increasing size (created at import, outside the analysis), so that anything that looks at the files on
# disk - e.g. scheduling by size - sees a skew in which later files are larger
_DIR = os.path.join(os.path.dirname(os.path.dirname(os.path.abspath(__file__))), 'scratch', 'c13_files')
os.makedirs(_DIR, exist_ok=True)
FILES = []
for _i in range(N):
    _p = os.path.join(_DIR, f'g{_i}.fa')
    if not os.path.exists(_p) or os.path.getsize(_p) != 20 + 100 * _i:
        with open(_p, 'w') as _f:
            _f.write('>s\n' + 'A' * (16 + 100 * _i) + '\n')
    FILES.append(SequenceFile(_p, 'fasta'))
TAGS = [np.array([i + 1], dtype='u8') for i in range(N)]


class Boom(Exception):
    pass


class FakeFuture:
    """The part of concurrent.futures.Future a consumer of as_completed() may use: by the time a future is yielded it
    is done, so result() returns or raises at once and exception() returns the exception or None."""
    def __init__(self, fn, args):
        self.fn, self.args = fn, args
        self._ran = False
        self._value = self._exc = None

    def _run(self):
        if not self._ran:
            self._ran = True
            try:
                self._value = self.fn(*self.args)
            except BaseException as e:   # noqa
                if not isinstance(e, Exception):
                    raise
                self._exc = e

    def result(self, timeout=None):
        self._run()
        if self._exc is not None:
            raise self._exc
        return self._value

    def exception(self, timeout=None):
        self._run()
        return self._exc

    def done(self):
        return True

    def cancelled(self):
        return False

    def running(self):
        return False

    def cancel(self):
        return False

    def add_done_callback(self, fn):
        fn(self)


class FakeExecutor(Executor):
    def __init__(self, log, max_workers=None):
        self.log = log
        self.max_workers = max_workers
        self.submitted = []
        self.shut = False

    def submit(self, fn, *args, **kw):
        if self.shut:
            raise RuntimeError('cannot schedule new futures after shutdown')     # as concurrent.futures does
        f = FakeFuture(fn, args)
        self.submitted.append(f)
        return f

    def shutdown(self, wait=True, **kw):
        self.shut = True


def _run(perm, fail, mode, own, max_workers):
    """Returns (outcome, detail): outcome in 'ok' | 'raised' | 'bad:<why>'."""
    log = {'made': []}

    failing = [fail]

    def tagger(kspec, file, **kw):
        i = FILES.index(file)
        if i == failing[0]:
            raise Boom(i)
        return TAGS[i]

    def mk(kind):
        def factory(max_workers=None):
            e = FakeExecutor(log, max_workers)
            log['made'].append((kind, e))
            return e
        return factory

    def fake_as_completed(fs):
        fs = list(fs)
        return [fs[p] for p in perm]

    saved = (calc.calc_file_signature, calc.ThreadPoolExecutor, calc.ProcessPoolExecutor, calc.as_completed)
    calc.calc_file_signature, calc.ThreadPoolExecutor, calc.ProcessPoolExecutor, calc.as_completed = tagger, mk('threads'), mk('processes'), fake_as_completed
    conc = [None, 'threads', 'processes', 'bogus'][mode]
    caller_exec = None if own else FakeExecutor(log)
    try:
        try:
            res = calc.calc_file_signatures(KSPEC, FILES, progress=None, concurrency=conc, max_workers=max_workers, executor=caller_exec)
        except Boom:
            if not (0 <= fail < N):
                return 'bad:spurious failure', None
            if not own:
                # the caller's executor is the caller's: the same executor is used for the next batch, in which every file
                # is readable, and that call must return the signatures in file order
                failing[0] = -1
                try:
                    res2 = calc.calc_file_signatures(KSPEC, FILES, progress=None, concurrency=conc, max_workers=max_workers, executor=caller_exec)
                except Exception as e:   # noqa
                    return f'bad:after a failed batch the next call with the same caller-supplied executor raised {type(e).__name__}: {e}', None
                if len(res2) != N or any(res2[i] is not TAGS[i] for i in range(N)):
                    return 'bad:after a failed batch the next call with the same caller-supplied executor returned wrong signatures', None
            return 'raised', None
        except ValueError:
            if mode == 3 and own:
                return 'valueerror', None
            return 'bad:unexpected ValueError', None
        if 0 <= fail < N:
            return 'bad:returned although a file failed', None
        if mode == 3 and own:
            return 'bad:invalid concurrency accepted', None
        if len(res) != N:
            return 'bad:wrong length', None
        for i in range(N):
            if res[i] is not TAGS[i]:
                return f'bad:entry {i} is not the signature of file {i}', None
        if res.kmerspec != KSPEC:
            return 'bad:kmerspec', None
        if not own:
            if caller_exec.shut:
                return 'bad:caller executor shut down', None
            if log['made']:
                return 'bad:executor created although one was supplied', None
        else:
            want = {0: [], 1: ['threads'], 2: ['processes']}[mode]
            if [k for k, _ in log['made']] != want:
                return 'bad:wrong executor kind', None
            for k, e in log['made']:
                if not e.shut:
                    return 'bad:own executor not shut down', None
                if e.max_workers != max_workers:
                    return 'bad:max_workers not passed on', None
        return 'ok', None
    finally:
        calc.calc_file_signature, calc.ThreadPoolExecutor, calc.ProcessPoolExecutor, calc.as_completed = saved


def _fixed(mode, own):
    return ('mode' not in P or mode == P['mode']) and ('own' not in P or own == bool(P['own']))


def _perm_ok(perm):
    return len(set(perm)) == len(perm) and all(0 <= p < N for p in perm)


def _c13_order(p0: int, p1: int, p2: int, p3: int, p4: int, fail: int, mode: int, own: bool, max_workers: int) -> bool:
    """
    pre: _perm_ok([p0, p1, p2, p3, p4][:N])
    pre: -1 <= fail < N
    pre: 0 <= mode <= 3
    pre: 1 <= max_workers <= 3
    pre: _fixed(mode, own)
    post: _
    """
    out, _ = _run([p0, p1, p2, p3, p4][:N], fail, mode, own, max_workers)
    return not out.startswith('bad')


def explain_c13_order(p0, p1, p2, p3, p4, fail, mode, own, max_workers):
    return _run([p0, p1, p2, p3, p4][:N], fail, mode, own, max_workers)[0]


def _c13_reach(p0: int, p1: int, p2: int, p3: int, p4: int, fail: int, mode: int, own: bool, max_workers: int) -> bool:
    """
    Reachability twin: a non-identity completion order in a pooled mode that succeeds must exist (expected to be "violated").
    pre: _perm_ok([p0, p1, p2, p3, p4][:N])
    pre: -1 <= fail < N
    pre: 0 <= mode <= 3
    pre: 1 <= max_workers <= 3
    pre: _fixed(mode, own)
    post: _
    """
    perm = [p0, p1, p2, p3, p4][:N]
    out, _ = _run(perm, fail, mode, own, max_workers)
    return not (out == 'ok' and mode in (1, 2) and perm != sorted(perm))
