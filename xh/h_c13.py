"""C13 harness (engine X): real gambit.sigs.calc.calc_file_signatures with a stub executor whose completion order is an
arbitrary permutation (all that concurrent.futures.as_completed promises), a file that may fail, every concurrency mode."""
import os
import json
import numpy as np
from concurrent.futures import Executor

import gambit.sigs.calc as calc
from gambit.kmers import KmerSpec
from gambit.seq import SequenceFile

P = json.loads(os.environ.get('XH_PARAMS', '{}') or '{}')
N = int(P.get('n', 3))
KSPEC = KmerSpec(11, 'ATGAC')
# real files of increasing size (created at import, outside the analysis), so that anything that looks at the files on
# disk - e.g. scheduling by size - sees a skew in which later files are larger
_DIR = os.path.join(os.path.dirname(os.path.dirname(os.path.abspath(__file__))), 'scratch', 'c13_files')
os.makedirs(_DIR, exist_ok=True)
FILES = []
for _i in range(N):
    _p = os.path.join(_DIR, f'g{_i}.fa')
    if not os.path.exists(_p) or os.path.getsize(_p) != 20 + 100 * _i:
        with open(_p, 'w') as _f:
            _f.write('>s\n' + 'A' * (16 + 100 * _i) + '\n')
    FILES.append(SequenceFile(_p, 'fasta'))
TAGS = [np.array([i + 1], dtype='u8') for i in range(N)]


class Boom(Exception):
    pass


class FakeFuture:
    """The part of concurrent.futures.Future a consumer of as_completed() may use: by the time a future is yielded it
    is done, so result() returns or raises at once and exception() returns the exception or None."""
    def __init__(self, fn, args):
        self.fn, self.args = fn, args
        self._ran = False
        self._value = self._exc = None

    def _run(self):
        if not self._ran:
            self._ran = True
            try:
                self._value = self.fn(*self.args)
            except BaseException as e:   # noqa
                if not isinstance(e, Exception):
                    raise
                self._exc = e

    def result(self, timeout=None):
        self._run()
        if self._exc is not None:
            raise self._exc
        return self._value

    def exception(self, timeout=None):
        self._run()
        return self._exc

    def done(self):
        return True

    def cancelled(self):
        return False

    def running(self):
        return False

    def cancel(self):
        return False

    def add_done_callback(self, fn):
        fn(self)


class FakeExecutor(Executor):
    def __init__(self, log, max_workers=None):
        self.log = log
        self.max_workers = max_workers
        self.submitted = []
        self.shut = False

    def submit(self, fn, *args, **kw):
        if self.shut:
            raise RuntimeError('cannot schedule new futures after shutdown')     # as concurrent.futures does
        f = FakeFuture(fn, args)
        self.submitted.append(f)
        return f

    def shutdown(self, wait=True, **kw):
        self.shut = True


def _run(perm, fail, mode, own, max_workers):
    """Returns (outcome, detail): outcome in 'ok' | 'raised' | 'bad:<why>'."""
    log = {'made': []}

    failing = [fail]

    def tagger(kspec, file, **kw):
        i = FILES.index(file)
        if i == failing[0]:
            raise Boom(i)
        return TAGS[i]

    def mk(kind):
        def factory(max_workers=None):
            e = FakeExecutor(log, max_workers)
            log['made'].append((kind, e))
            return e
        return factory

    def fake_as_completed(fs):
        fs = list(fs)
        return [fs[p] for p in perm]

    saved = (calc.calc_file_signature, calc.ThreadPoolExecutor, calc.ProcessPoolExecutor, calc.as_completed)
    calc.calc_file_signature, calc.ThreadPoolExecutor, calc.ProcessPoolExecutor, calc.as_completed = tagger, mk('threads'), mk('processes'), fake_as_completed
    conc = [None, 'threads', 'processes', 'bogus'][mode]
    caller_exec = None if own else FakeExecutor(log)
    try:
        try:
            res = calc.calc_file_signatures(KSPEC, FILES, progress=None, concurrency=conc, max_workers=max_workers, executor=caller_exec)
        except Boom:
            if not (0 <= fail < N):
                return 'bad:spurious failure', None
            if not own:
                # the caller's executor is the caller's: the same executor is used for the next batch, in which every file
                # is readable, and that call must return the signatures in file order
                failing[0] = -1
                try:
                    res2 = calc.calc_file_signatures(KSPEC, FILES, progress=None, concurrency=conc, max_workers=max_workers, executor=caller_exec)
                except Exception as e:   # noqa
                    return f'bad:after a failed batch the next call with the same caller-supplied executor raised {type(e).__name__}: {e}', None
                if len(res2) != N or any(res2[i] is not TAGS[i] for i in range(N)):
                    return 'bad:after a failed batch the next call with the same caller-supplied executor returned wrong signatures', None
            return 'raised', None
        except ValueError:
            if mode == 3 and own:
                return 'valueerror', None
            return 'bad:unexpected ValueError', None
        if 0 <= fail < N:
            return 'bad:returned although a file failed', None
        if mode == 3 and own:
            return 'bad:invalid concurrency accepted', None
        if len(res) != N:
            return 'bad:wrong length', None
        for i in range(N):
            if res[i] is not TAGS[i]:
                return f'bad:entry {i} is not the signature of file {i}', None
        if res.kmerspec != KSPEC:
            return 'bad:kmerspec', None
        if not own:
            if caller_exec.shut:
                return 'bad:caller executor shut down', None
            if log['made']:
                return 'bad:executor created although one was supplied', None
        else:
            want = {0: [], 1: ['threads'], 2: ['processes']}[mode]
            if [k for k, _ in log['made']] != want:
                return 'bad:wrong executor kind', None
            for k, e in log['made']:
                if not e.shut:
                    return 'bad:own executor not shut down', None
                if e.max_workers != max_workers:
                    return 'bad:max_workers not passed on', None
        return 'ok', None
    finally:
        calc.calc_file_signature, calc.ThreadPoolExecutor, calc.ProcessPoolExecutor, calc.as_completed = saved


def _fixed(mode, own):
    return ('mode' not in P or mode == P['mode']) and ('own' not in P or own == bool(P['own']))


def _perm_ok(perm):
    return len(set(perm)) == len(perm) and all(0 <= p < N for p in perm)


def _c13_order(p0: int, p1: int, p2: int, p3: int, p4: int, fail: int, mode: int, own: bool, max_workers: int) -> bool:
    """
    pre: _perm_ok([p0, p1, p2, p3, p4][:N])
    pre: -1 <= fail < N
    pre: 0 <= mode <= 3
    pre: 1 <= max_workers <= 3
    pre: _fixed(mode, own)
    post: _
    """
    out, _ = _run([p0, p1, p2, p3, p4][:N], fail, mode, own, max_workers)
    return not out.startswith('bad')


def explain_c13_order(p0, p1, p2, p3, p4, fail, mode, own, max_workers):
    return _run([p0, p1, p2, p3, p4][:N], fail, mode, own, max_workers)[0]


def _c13_reach(p0: int, p1: int, p2: int, p3: int, p4: int, fail: int, mode: int, own: bool, max_workers: int) -> bool:
    """
    Reachability twin: a non-identity completion order in a pooled mode that succeeds must exist (expected to be "violated").
    pre: _perm_ok([p0, p1, p2, p3, p4][:N])
    pre: -1 <= fail < N
    pre: 0 <= mode <= 3
    pre: 1 <= max_workers <= 3
    pre: _fixed(mode, own)
    post: _
    """
    perm = [p0, p1, p2, p3, p4][:N]
    out, _ = _run(perm, fail, mode, own, max_workers)
    return not (out == 'ok' and mode in (1, 2) and perm != sorted(perm))


# ---- histories on real files, no stubs: "each equal to the single-file result" whatever was computed (or failed) before -----------

import gzip as _gzip
import random as _random
from concurrent.futures import ThreadPoolExecutor as _RealThreads
from specs import kmers_spec as _S
from xh.taxo import fork_int, NoTracing

_HDIR = None


def _mk_history_files():
    global _HDIR
    from xh import scratchdir
    _HDIR = scratchdir.fresh('c13_hist')
    rnd = _random.Random(13)
    out = {}

    def contigs(n, ln):
        cs = []
        for _ in range(n):
            body = ''.join(rnd.choice('ACGT') for _ in range(ln))
            cs.append('ATGAC' + body[:30] + 'nn' + body[30:] + 'GTCAT')       # forward and reverse-strand prefix occurrences
        return cs
    for name, n in (('good0', 3), ('good1', 2), ('good2', 4)):
        cs = contigs(n, 400)
        p = os.path.join(_HDIR, name + '.fasta')
        with open(p, 'w') as f:
            for i, c in enumerate(cs):
                f.write(f'>{name}_{i}\n{c}\n')
        out[name] = (SequenceFile(p, 'fasta'), _S.py_signature(11, b'ATGAC', [c.encode() for c in cs]))
    # a file that fails part-way: a gzip stream cut off after most of its (poorly compressible, long) content was readable
    cs = contigs(60, 1500)
    raw = ''.join(f'>bad_{i}\n{c}\n' for i, c in enumerate(cs)).encode()
    gz = _gzip.compress(raw)
    p = os.path.join(_HDIR, 'bad.fasta.gz')
    with open(p, 'wb') as f:
        f.write(gz[:int(len(gz) * 0.8)])
    out['bad'] = (SequenceFile(p, 'fasta', 'gzip'), None)
    out['missing'] = (SequenceFile(os.path.join(_HDIR, 'missing.fasta'), 'fasta'), None)
    return out


HFILES = _mk_history_files() if ('hmode' in P or os.environ.get('XH_C13_HISTORY')) else {}       # only the history conditions need the files
BATCHES = [['good0', 'good1'], ['bad'], ['good1', 'bad', 'good0'], ['good2'], ['good2', 'good0', 'good1'], ['missing', 'good1'], [],
           ['SWAP', 'good0', 'good2']]        # SWAP: before this batch the contents of good0.fasta and good2.fasta are exchanged on disk
MODES = ['sequential', 'threads (own pool)', 'caller-supplied thread pool']


def _swap_files(a, b):
    pa, pb = str(HFILES[a][0].path), str(HFILES[b][0].path)
    with open(pa, 'rb') as f:
        da = f.read()
    with open(pb, 'rb') as f:
        db = f.read()
    with open(pa, 'wb') as f:
        f.write(db)
    with open(pb, 'wb') as f:
        f.write(da)


def _history_concrete(mode, batches):
    pool = _RealThreads(max_workers=2) if mode == 2 else None
    content = {n: n for n in HFILES}          # which genome each file currently holds
    try:
        for step, b in enumerate(batches):
            names = list(BATCHES[b])
            if names and names[0] == 'SWAP':
                names = names[1:]
                _swap_files('good0', 'good2')
                content['good0'], content['good2'] = content['good2'], content['good0']
            files = [HFILES[n][0] for n in names]
            must_fail = any(HFILES[n][1] is None for n in names)
            kw = dict(progress=None, concurrency=None)
            if mode == 1:
                kw.update(concurrency='threads', max_workers=2)
            elif mode == 2:
                kw.update(executor=pool)
            try:
                res = calc.calc_file_signatures(KSPEC, files, **kw)
            except Exception as e:   # noqa
                if must_fail:
                    continue
                return False, f'step {step}: batch {names} raised {type(e).__name__}: {e}'
            if must_fail:
                return False, f'step {step}: batch {names} returned although one of its files cannot be read'
            if len(res) != len(names):
                return False, f'step {step}: batch {names} returned {len(res)} signatures'
            for i, n in enumerate(names):
                got = [int(x) for x in res[i]]
                want = HFILES[content[n]][1]
                if got != want:
                    return False, (f'step {step}: signature {i} of batch {names} ({n}' + (f', which now holds the genome of {content[n]}' if content[n] != n else '') + f') has {len(got)} k-mers, '
                                   f'the file alone has {len(want)} ({len(set(got) - set(want))} extra, {len(set(want) - set(got))} missing)')
    finally:
        if content['good0'] != 'good0':
            _swap_files('good0', 'good2')
        if pool is not None:
            pool.shutdown()
    return True, None


def _history_run(mode, b0, b1, b2):
    a = (fork_int(mode, 0, 2), [fork_int(b, 0, len(BATCHES) - 1) for b in (b0, b1, b2)])
    with NoTracing():
        r = _history_concrete(*a)
        if not r[0] and os.environ.get('XH_DEBUG'):
            with open(os.environ['XH_DEBUG'], 'a') as f:
                f.write(repr((a, r)) + '\n')
        return r


def _c13_history(mode: int, b0: int, b1: int, b2: int) -> bool:
    """
    Three batches one after the other in the same process (real files, real parser, real thread pools): every returned signature
    equals the single-file result, every batch containing an unreadable file fails - whatever ran or failed before.
    pre: 0 <= mode <= 2 and all(0 <= b < len(BATCHES) for b in (b0, b1, b2))
    pre: ('hmode' not in P or mode == P['hmode']) and ('b0' not in P or b0 == P['b0'])
    post: _
    """
    return _history_run(mode, b0, b1, b2)[0]


def explain_c13_history(mode, b0, b1, b2):
    return {'mode': MODES[mode], 'batches': [BATCHES[b] for b in (b0, b1, b2)], 'why': _history_run(mode, b0, b1, b2)[1]}


# ---- batch sizes far beyond the symbolic bound (stubbed workers, a few completion orders) ---------------------------------------------
# The order conditions above quantify over every completion order for up to 5 files.  Anything that depends on the NUMBER of files
# (windows of in-flight tasks, batching) needs large batches; the completion order is then one of a few structured ones.

SCALE_N = [0, 1, 2, 7, 33, 100, 257, 513, 1025, 3000]
SCALE_ORDERS = ['as submitted', 'reversed', 'interleaved from both ends', 'rotated by a third']


def _scale_perm(n, kind):
    idx = list(range(n))
    if kind == 1:
        return idx[::-1]
    if kind == 2:
        out = []
        lo, hi = 0, n - 1
        while lo <= hi:
            out.append(lo)
            if hi != lo:
                out.append(hi)
            lo, hi = lo + 1, hi - 1
        return out
    if kind == 3:
        r = n // 3
        return idx[r:] + idx[:r]
    return idx


def _scale_concrete(n_i, order_i, mode, own, fail_rel):
    """calc_file_signatures on SCALE_N[n_i] distinct (never opened) files with the stub executor / stub worker of the order conditions."""
    n = SCALE_N[n_i]
    files = [SequenceFile(f'/nonexistent/scale/f{i}.fa', 'fasta') for i in range(n)]
    tags = [np.array([i], dtype='u8') for i in range(n)]
    pos = {id(f): i for i, f in enumerate(files)}
    fail = -1 if (fail_rel == 0 or n == 0) else [0, n // 2, n - 1][fail_rel - 1]
    log = {'made': []}

    def tagger(kspec, file, **kw):
        i = pos[id(file)]
        if i == fail:
            raise Boom(i)
        return tags[i]

    def mk(kind):
        def factory(max_workers=None):
            e = FakeExecutor(log, max_workers)
            log['made'].append((kind, e))
            return e
        return factory

    def fake_as_completed(fs):
        # as_completed works on the futures it was given when it was called; whatever is submitted later is not in it
        fs = list(fs)
        perm = _scale_perm(len(fs), order_i)
        return [fs[p] for p in perm]
    saved = (calc.calc_file_signature, calc.ThreadPoolExecutor, calc.ProcessPoolExecutor, calc.as_completed)
    calc.calc_file_signature, calc.ThreadPoolExecutor, calc.ProcessPoolExecutor, calc.as_completed = tagger, mk('threads'), mk('processes'), fake_as_completed
    conc = [None, 'threads', 'processes'][mode]
    caller_exec = None if own else FakeExecutor(log)
    try:
        try:
            res = calc.calc_file_signatures(KSPEC, files, progress=None, concurrency=conc, max_workers=3, executor=caller_exec)
        except Boom:
            return (fail >= 0), f'{n} files: spurious failure' if fail < 0 else None
        except Exception as e:   # noqa
            return False, f'{n} files, all readable, completion order "{SCALE_ORDERS[order_i]}": raised {type(e).__name__}: {e}'
        if fail >= 0:
            return False, f'{n} files: returned although file {fail} failed'
        if len(res) != n:
            return False, f'{n} files: {len(res)} signatures returned'
        for i in range(n):
            if res[i] is not tags[i]:
                return False, f'{n} files, completion order "{SCALE_ORDERS[order_i]}": entry {i} is not the signature of file {i} ({res[i]!r})'
        return True, None
    finally:
        calc.calc_file_signature, calc.ThreadPoolExecutor, calc.ProcessPoolExecutor, calc.as_completed = saved


def _scale_run(n_i, order_i, mode, own, fail_rel):
    a = (fork_int(n_i, 0, len(SCALE_N) - 1), fork_int(order_i, 0, len(SCALE_ORDERS) - 1), fork_int(mode, 0, 2), bool(own), fork_int(fail_rel, 0, 3))
    with NoTracing():
        return _scale_concrete(*a)


def _c13_scale(n_i: int, order_i: int, mode: int, own: bool, fail_rel: int) -> bool:
    """
    pre: 0 <= n_i < len(SCALE_N) and 0 <= order_i < len(SCALE_ORDERS) and 0 <= mode <= 2 and 0 <= fail_rel <= 3
    pre: 'smode' not in P or mode == P['smode']
    post: _
    """
    return _scale_run(n_i, order_i, mode, own, fail_rel)[0]


def explain_c13_scale(n_i, order_i, mode, own, fail_rel):
    return {'files': SCALE_N[n_i], 'completion order': SCALE_ORDERS[order_i], 'concurrency': [None, 'threads', 'processes'][mode], 'own executor': own,
            'failing file': ['none', 'first', 'middle', 'last'][fail_rel], 'why': _scale_run(n_i, order_i, mode, own, fail_rel)[1]}
