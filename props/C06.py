"""C06 - a genome's signature depends only on its biological content.  Engine K (strand symmetry, contig order /
union, case) on calc_signature; compression detection on util/io.py with a symbolic file header."""
import itertools
import z3
import numpy as np

from vlib.common import Run, run_pool, HOLDS, VIOLATED, INCONCLUSIVE
from kbmc.harness import *
from kbmc.sym import *
from kbmc.models import IndexArrayM, val_bv64
from kbmc import interp as I
from specs import kmers_spec as S
from props import C01

PID = 'C06'
TO = 600
GRID = [(2, 'AT'), (3, 'AA'), (1, 'ATG'), (2, 'T'), (1, 'A'), (3, 'AT')]


def session_for(k, prefix, maxlen):
    positions = max(0, maxlen - (k + len(prefix)) + 1)
    return KSession(max_unroll=positions + 3)


def sig_of(ks, spec, seqs):
    arg = seqs[0] if len(seqs) == 1 else list(seqs)
    return ks.call(ks.lookup('gambit.sigs.calc', 'calc_signature'), spec, arg)


def differ(oa, ob):
    a, b = oa.ret, ob.ret
    if not isinstance(a, IndexArrayM) or not isinstance(b, IndexArrayM):
        return True
    mem = lambda s, v: lor(*[land(g, val_bv64(x) == v) for g, x in s.inserts])
    return lor(oa.raised, ob.raised,
               *[land(g, lnot(mem(b, val_bv64(x)))) for g, x in a.inserts],
               *[land(g, lnot(mem(a, val_bv64(x)))) for g, x in b.inserts],
               lnot(a.is_sorted), lnot(b.is_sorted), str(a.dtype) != str(b.dtype))


def nonempty(o):
    return lor(*[g for g, _ in o.ret.inserts]) if isinstance(o.ret, IndexArrayM) else False


def _ex(cells, extra=None):
    def ex(m):
        d = {'seqs_hex': [model_bytes(m, cs).hex() for cs in cells]}
        if extra:
            d.update(extra(m))
        return d
    return ex


def ob_strand(k, prefix, lens, flips, second=None):
    """sig(contigs) == sig(contigs with the flagged ones reverse-complemented by the real revcomp)."""
    ks = session_for(k, prefix, max(lens))
    spec = C01.make_spec(ks, k, prefix)
    seqs, cells = zip(*[sym_bytes('stu'[i], n) for i, n in enumerate(lens)])
    rc = ks.lookup('gambit._cython.kmers', 'revcomp')
    seqs2 = []
    for sq, f in zip(seqs, flips):
        if f:
            o = ks.call(rc, sq)
            if o.raised is not False or not isinstance(o.ret, SymSeq):
                raise CannotEncode('revcomp failed')
            seqs2.append(o.ret)
        else:
            seqs2.append(sq)
    oa, ob = sig_of(ks, spec, seqs), sig_of(ks, spec, seqs2)
    return decide(f'strand k={k} prefix={prefix} lens={list(lens)} flips={list(flips)}', [], differ(oa, ob), ks,
                  _ex(cells, lambda m: {'k': k, 'prefix': prefix, 'flips': list(flips), 'kind': 'strand'}), TO, second=second,
                  reach_goals=[('nonempty-signature', nonempty(oa))] if max(lens) >= k + len(prefix) else None,
                  bounds={'k': k, 'prefix': prefix, 'lengths': list(lens)})


def ob_union(k, prefix, lens, second=None):
    """sig([s1,s2]) == sig([s2,s1]) == sig(s1) U sig(s2): in particular no k-mer is formed across the boundary."""
    ks = session_for(k, prefix, max(lens))
    spec = C01.make_spec(ks, k, prefix)
    (s1, c1), (s2, c2) = sym_bytes('s', lens[0]), sym_bytes('t', lens[1])
    o12, o21 = sig_of(ks, spec, [s1, s2]), sig_of(ks, spec, [s2, s1])
    o1, o2 = sig_of(ks, spec, [s1]), sig_of(ks, spec, [s2])
    if not all(isinstance(o.ret, IndexArrayM) for o in (o12, o21, o1, o2)):
        viol = True
        witness = True
    else:
        union = IndexArrayM(o1.ret.inserts + o2.ret.inserts, o12.ret.dtype, land(o1.ret.is_sorted, o2.ret.is_sorted), True)
        ou = Outcome(union, lor(o1.raised, o2.raised), 0)
        viol = lor(differ(o12, o21), differ(o12, ou))
        # the case that makes the clause interesting: the concatenation s1+s2 has a k-mer that neither contig has
        occ_cat = S.occurrences(c1 + c2, k, prefix.encode())
        occ_sep = S.occurrences(c1, k, prefix.encode()) + S.occurrences(c2, k, prefix.encode())
        witness = lor(*[land(c, lnot(lor(*[land(c2_, i2 == idx) for c2_, i2, _, _ in occ_sep]))) for c, idx, _, _ in occ_cat])
    return decide(f'union/order k={k} prefix={prefix} lens={list(lens)}', [], viol, ks,
                  _ex([c1, c2], lambda m: {'k': k, 'prefix': prefix, 'kind': 'union'}), TO, second=second,
                  reach_goals=[('concatenation-would-add-a-kmer', witness)] if sum(lens) >= k + len(prefix) and min(lens) > 0 else None,
                  bounds={'k': k, 'prefix': prefix, 'lengths': list(lens)})


def ob_file(k, prefix, lens, second=None):
    """calc_file_signature(kspec, file) for a file whose parser yields records with arbitrary sequences of the given lengths
    == the union of the per-contig k-mer sets of the property text (specs/kmers_spec.py), in either record order."""
    from kbmc.models import NamespaceM
    ks = session_for(k, prefix, max(lens))
    spec = C01.make_spec(ks, k, prefix)
    seqs, cells = zip(*[sym_bytes('stu'[i], n) for i, n in enumerate(lens)])
    fn = ks.lookup('gambit.sigs.calc', 'calc_file_signature')

    def seqfile(order):
        recs = [NamespaceM(seq=seqs[i], id=f'contig{i}', name=f'contig{i}', description='') for i in order]
        ctx = NamespaceM(stubs={'__enter__': lambda ip, *a: recs, '__exit__': lambda ip, *a: None})
        return NamespaceM(stubs={'parse': lambda ip, *a, **kw: ctx}, path='genome.fasta', format='fasta', compression='auto')
    outs = [ks.call(fn, spec, seqfile(order)) for order in (range(len(lens)), reversed(range(len(lens))))]
    occ = []
    for cs in cells:
        occ.extend(S.occurrences(cs, k, prefix.encode()))
    viols = []
    for o in outs:
        sig = o.ret
        if not isinstance(sig, IndexArrayM):
            viols.append(True)
            continue
        spec_member = lambda v: lor(*[land(c, idx == v) for c, idx, _, _ in occ])
        viols += [o.raised, lnot(sig.is_sorted), not sig.unique, str(sig.dtype) != str(np.dtype(S.index_dtype_str(k))),
                  *[land(g, lnot(spec_member(val_bv64(x)))) for g, x in sig.inserts],
                  *[land(c, lnot(C01.member(sig, idx))) for c, idx, _, _ in occ]]
    # witnesses: each contig alone contributes a k-mer no other contig has
    wit = []
    for i, cs in enumerate(cells):
        mine = S.occurrences(cs, k, prefix.encode())
        others = [t for j, c2 in enumerate(cells) if j != i for t in S.occurrences(c2, k, prefix.encode())]
        if mine:
            wit.append((f'contig-{i}-has-a-kmer-of-its-own', lor(*[land(c, lnot(lor(*[land(c2, i2 == idx) for c2, i2, _, _ in others]))) for c, idx, _, _ in mine])))
    return decide(f'file k={k} prefix={prefix} lens={list(lens)}', [], lor(*viols), ks,
                  _ex(cells, lambda m: {'k': k, 'prefix': prefix, 'kind': 'file'}), TO, second=second, reach_goals=wit or None,
                  bounds={'k': k, 'prefix': prefix, 'record lengths': list(lens), 'record order': 'as given and reversed'})


def ob_case(k, prefix, n, second=None):
    """sig(seq) == sig(seq with an arbitrary subset of its letters case-flipped)."""
    ks = session_for(k, prefix, n)
    spec = C01.make_spec(ks, k, prefix)
    s1, c1 = sym_bytes('s', n)
    flip = [z3.Bool(f'flip_{i}') for i in range(n)]
    isalpha = lambda c: z3.Or(z3.And(z3.UGE(c, 65), z3.ULE(c, 90)), z3.And(z3.UGE(c, 97), z3.ULE(c, 122)))
    c2 = [z3.If(z3.And(f, isalpha(c)), c ^ 0x20, c) for f, c in zip(flip, c1)]
    s2 = SymSeq(c2, C_UCHAR, 'bytes', name='s_flipped')
    oa, ob = sig_of(ks, spec, [s1]), sig_of(ks, spec, [s2])
    return decide(f'case k={k} prefix={prefix} n={n}', [], differ(oa, ob), ks,
                  _ex([c1], lambda m: {'k': k, 'prefix': prefix, 'kind': 'case', 'flip': [bool(m.eval(f, model_completion=True)) for f in flip]}), TO, second=second,
                  reach_goals=[('nonempty-and-flipped', land(nonempty(oa), lor(*[z3.And(f, isalpha(c)) for f, c in zip(flip, c1)])))] if n >= k + len(prefix) else None,
                  bounds={'k': k, 'prefix': prefix, 'length': n})


# ---- compression detection (util/io.py)

class FileM:
    choiceable = True
    """Binary file object whose content starts with the given symbolic bytes."""
    def __init__(self, head):
        self.head = head
        self.closed = False
        self.pos = 0
        self.log = []


def ob_compression_case(nbytes, mode='rt', second=None):
    """guess_compression / _open_auto on a file whose first nbytes bytes are arbitrary: gzip is chosen iff the first two
    bytes are 1f 8b - whatever the file is called."""
    ks = KSession()
    ip = ks.ip
    cells = [z3.BitVec(f'h_{i}', 8) for i in range(nbytes)]
    is_gz = z3.And(cells[0] == 0x1f, cells[1] == 0x8b)
    head = SymSeq(cells, C_UCHAR, 'bytes')
    fobj = FileM(head)
    M = ip.models
    orig_call_method, orig_call, orig_getattr = M.call_method, M.call, M.getattr

    def getattr_(obj, attr):
        if isinstance(obj, FileM):
            return I.ModelMethod(obj, attr)
        return orig_getattr(obj, attr)

    def call_method(obj, name, args, kwargs):
        if isinstance(obj, FileM):
            if name == 'read':
                n = args[0] if args else len(obj.head.cells)
                lo = obj.pos
                obj.pos = min(lo + n, len(obj.head.cells))
                if not args:
                    return Tag('whole-file-content', obj)
                return SymSeq(obj.head.cells[lo:lo + n], C_UCHAR, 'bytes')
            if name == 'seek':
                obj.pos = args[0]
                return args[0]
            if name in ('close', '__exit__'):
                obj.closed = lor(obj.closed, ip.active())
                return None
            if name == '__enter__':
                return obj
        return orig_call_method(obj, name, args, kwargs)

    def call(fn, args, kwargs):
        if fn is open:
            return fobj
        if isinstance(fn, I.External) and (fn.mod, fn.attr) == ('gzip', 'GzipFile'):
            return Tag('gzip', kwargs.get('fileobj'))
        if isinstance(fn, I.External) and (fn.attr or '').endswith('TextIOWrapper'):
            return Tag('text', args[0])
        if isinstance(fn, I.External) and fn.mod in ('zlib', 'io', 'gzip', 'bz2', 'lzma', 'codecs', 'shutil', 'tempfile'):
            # any other decoder / buffer: recorded as such; the oracle only accepts the streaming multi-member gzip reader
            src = args[0] if args else next(iter(kwargs.values()), None)
            return Tag(f'{fn.mod}.{fn.attr}', src)
        return orig_call(fn, args, kwargs)
    M.getattr, M.call_method, M.call = getattr_, call_method, call
    g = ks.call(ks.lookup('gambit.util.io', 'guess_compression'), FileM(head))
    gv = lor(*[land(c, (v == 'gzip') != is_gz if isinstance(v, str) else True) for c, v in PyChoice.of(g.ret)]) if g.ret is not UNSET else True
    names = ['x.fasta', 'x.fasta.gz', 'x.gz', 'x']
    viols, samples = [], []
    for path in names:
        fobj.pos, fobj.closed = 0, False
        o = ks.call(ks.lookup('gambit.util.io', '_open_auto'), path, mode)
        if o.ret is UNSET:
            viols.append(True)
            continue
        for c, chain, base in unwrap(o.ret):
            has_gz = 'gzip' in chain
            # accepted shapes: the raw file, or gzip.GzipFile on it (which reads every member of a multi-member file),
            # each optionally under a text wrapper; any other decoder is not known to honour that contract
            shape_ok = chain in (['text', 'gzip'], ['text']) if mode[1] == 't' else chain in (['gzip'], [])
            viols.append(land(c, lor(not shape_ok, base is not fobj, is_gz != has_gz)))
            samples.append({'path': path, 'wrappers': chain})
        viols.append(o.raised)
        viols.append(fobj.closed)
    viol = lor(gv, g.raised, *viols)
    return decide(f'compression nbytes={nbytes} mode={mode}', [], viol, ks,
                  lambda m: {'header_hex': model_bytes(m, cells).hex(), 'kind': 'compression', 'mode': mode}, 60, second=second,
                  reach_goals=[('gzip-header', is_gz), ('other-header', z3.Not(is_gz))], bounds={'header bytes': nbytes, 'names': names, 'mode': mode})


class Tag:
    choiceable = True

    def __init__(self, kind, inner):
        self.kind, self.inner = kind, inner


def unwrap(v, cond=True, chain=()):
    """All (condition, wrapper chain, innermost object) alternatives of a possibly merged wrapper value."""
    out = []
    if isinstance(v, I.MaybeNone):
        return unwrap(v.value, land(cond, v.present), chain) + [(land(cond, lnot(v.present)), list(chain) + ['<None>'], None)]
    for c, x in PyChoice.of(v):
        if isinstance(x, Tag):
            out.extend(unwrap(x.inner, land(cond, c), chain + (x.kind,)))
        else:
            out.append((land(cond, c), list(chain), x))
    return out


# ------------------------------------------------------------------------------------------------ replay

def replay(cex):
    kind = cex.get('kind')
    if kind == 'compression':
        import tempfile, os, gzip, io as _io
        import gambit.util.io as gio
        hdr = bytes.fromhex(cex['header_hex'])
        d = tempfile.mkdtemp(prefix='c06_', dir=os.environ.get('VERIF_SCRATCH', '/tmp'))
        bad = []
        try:
            for name in ('x.fasta', 'x.fasta.gz'):
                p = os.path.join(d, name)
                open(p, 'wb').write(hdr + b'rest')
                with open(p, 'rb') as f:
                    gguess = gio.guess_compression(f)
                want = 'gzip' if hdr[:2] == b'\x1f\x8b' else 'none'
                if gguess != want:
                    bad.append((name, gguess, want))
                f = gio._open_auto(p, 'rb')
                isgz = isinstance(f, gzip.GzipFile)
                if f is None or isgz != (want == 'gzip'):
                    bad.append((name, type(f).__name__, want))
                if f is not None:
                    f.close()
            # the decoder chosen for gzip content must read every member of a multi-member file (cat a.gz b.gz, bgzip)
            p = os.path.join(d, 'multi.fasta')
            parts = [b'>c1\nACGT\n', b'>c2\nTTGA\n', b'>c3\nGGCC\n']
            open(p, 'wb').write(b''.join(gzip.compress(x) for x in parts))
            f = gio._open_auto(p, 'rb')
            try:
                got = f.read() if f is not None else None
            finally:
                if f is not None:
                    f.close()
            if got != b''.join(parts):
                bad.append(('multi-member gzip', got, b''.join(parts)))
        finally:
            import shutil
            shutil.rmtree(d, ignore_errors=True)
        return bool(bad), {'how': 'real gambit.util.io on temporary files', 'mismatches': bad}
    if 'first_hex' in cex:
        return C01.replay_pure(cex)
    seqs = [bytes.fromhex(h) for h in cex['seqs_hex']]
    k, prefix = cex['k'], cex['prefix']
    if kind == 'file':
        # the real calc_file_signature on a sequence-file object whose parse() yields records with exactly these sequences
        import types, contextlib
        import gambit.sigs.calc as gc
        from gambit.kmers import KmerSpec
        bad = []
        want = S.py_signature(k, prefix.encode(), seqs)
        for order in (list(range(len(seqs))), list(reversed(range(len(seqs))))):
            recs = [types.SimpleNamespace(seq=seqs[i], id=f'contig{i}', name=f'contig{i}', description='') for i in order]
            sf = types.SimpleNamespace(parse=lambda **kw: contextlib.nullcontext(iter(recs)), path='genome.fasta', format='fasta', compression='auto')
            try:
                got = [int(x) for x in gc.calc_file_signature(KmerSpec(k, prefix), sf)]
            except Exception as e:   # noqa
                got = type(e).__name__
            if got != want:
                bad.append(('file signature', order, got, want))
        return bool(bad), {'how': 'real gambit.sigs.calc.calc_file_signature on a record source with these contigs (compiled kernels)', 'mismatches': bad,
                           'seqs': [repr(x) for x in seqs]}
    base, how = C01.real_signature(k, prefix, seqs, 'bytes', 'default')
    bad = []
    want = ('ok', S.py_signature(k, prefix.encode(), seqs), str(np.dtype(S.index_dtype_str(k))))
    if base != want:
        bad.append(('base', base, want))
    variants = []
    if kind == 'strand':
        variants.append([S.py_revcomp(s) if f else s for s, f in zip(seqs, cex['flips'])])
    elif kind == 'union':
        variants.append(list(reversed(seqs)))
    elif kind == 'case':
        flip = cex['flip']
        variants.append([bytes((c ^ 0x20) if (f and bytes([c]).isalpha()) else c for c, f in zip(seqs[0], flip))])
    for v in variants:
        got, _ = C01.real_signature(k, prefix, v, 'bytes', 'default')
        if got != base:
            bad.append(('variant', [repr(x) for x in v], got, base))
    if kind == 'union':
        parts = sorted(set(sum([C01.real_signature(k, prefix, [s], 'bytes', 'default')[0][1] or [] for s in seqs], [])))
        if base[1] != parts:
            bad.append(('union', base, parts))
    return bool(bad), {'how': how, 'mismatches': bad, 'seqs': [repr(s) for s in seqs]}


def main(tier):
    run = Run(PID, tier)
    second = None          # set per obligation below
    specs = []
    nmax = 6 if tier == 'quick' else 8
    for k, p in GRID:
        for n in range(k + len(p), nmax + 1):
            if len(p) == 1 and n > 7:
                continue        # one-letter prefixes match almost everywhere; two symbolic runs of length 8 do not finish in time
            specs.append(('props.C06', 'ob_strand', dict(k=k, prefix=p, lens=[n], flips=[True], second=second)))
            specs.append(('props.C06', 'ob_case', dict(k=k, prefix=p, n=n, second=second)))
        tot = 6 if tier == 'quick' else 8
        tl = k + len(p)
        pairs = [(tl, tl), (tl - 1, tl), (tl, 1), (2, tl + 1), (tl - 1, tl - 1)] + ([(tl + 1, tl + 1), (tl + 2, tl)] if tier == 'thorough' else [])
        for n1, n2 in pairs:
            if n1 + n2 > (8 if tier == 'quick' else 10) or min(n1, n2) < 1:
                continue
            specs.append(('props.C06', 'ob_union', dict(k=k, prefix=p, lens=[n1, n2], second=second)))
            if (n1, n2) in ((tl, tl), (tl - 1, tl)):
                for flips in ((True, False), (False, True), (True, True)):
                    specs.append(('props.C06', 'ob_strand', dict(k=k, prefix=p, lens=[n1, n2], flips=list(flips), second=second)))
        # the file-level entry point: records of exactly prefix+k, one shorter, one longer, with a one-letter and an empty record
        for lens in ([tl, tl], [tl - 1, tl + 1], [tl, 1, 0]) + (([tl + 1, tl, tl - 1], [tl + 2, tl]) if tier == 'thorough' else ()):
            if len(p) == 1 and sum(lens) > 7:
                continue
            specs.append(('props.C06', 'ob_file', dict(k=k, prefix=p, lens=list(lens), second=second)))
    # the same file gives the same signature whatever the process computed (or failed to compute) before: C01's history obligation
    for k, p, extra in ((2, 'AT', 1), (12, 'A', 0)):
        n = k + len(p) + extra
        specs.append(('props.C01', 'ob_pure', dict(k=k, prefix=p, lens1=[n, 1], n2=n)))
    for nb in (2, 3, 4):
        for mode in ('rt', 'rb'):
            specs.append(('props.C06', 'ob_compression_case', dict(nbytes=nb, mode=mode)))
    if tier == 'thorough':
        # cross-check with cvc5 where affordable (two symbolic executions per obligation make these formulas large)
        for sp in specs:
            tot = sum(sp[2].get('lens', [sp[2].get('n', 0)]))
            if 'second' in sp[2] or sp[1] != 'ob_compression_case':
                sp[2]['second'] = 'cvc5' if tot <= 5 else ('z3bin' if tot <= 7 else None)
    specs.sort(key=lambda s: -(sum(s[2].get('lens', [s[2].get('n', 0)])) * 10))
    results = run_pool(specs, budget_s=3000 if tier == 'thorough' else 900)
    run.add_results(results, rung=tier)
    for r in results:
        if r['status'] == VIOLATED:
            cex = r.get('cex') or {}
            rep, detail = replay(cex) if cex else (False, {})
            rec = {'obligation': r['name'], 'inputs': cex, 'cex_kind': r.get('cex_kind'), 'replay': detail, 'spec': r['spec']}
            if rep:
                run.report_violation(f'{r["name"].split()[0]}', f'{r["name"]}: {detail}', rec)
            else:
                r['status'] = INCONCLUSIVE
                r['error'] = f'counterexample did not reproduce on the real code: {rec}'
                run.inconclusive.append(r)
    from vlib import xprop
    jobs = [dict(path='/verif/xh/h_c06.py', fname='_c06_biology', params={}, timeout=300, self_reach=True, unblock=['open', 'os.remove', 'os.mkdir', 'shutil.rmtree', 'os.listdir', 'os.scandir', 'os.rmdir'], label='file level: contig orientation / order / case',
                 bounds={'genomes': '3 three-contig genomes (contigs of exactly prefix+k, matches flush with contig ends, mixed case, N runs, a boundary-spanning k-mer, a too-short contig)',
                         'orientation': 'every subset of contigs reverse-complemented', 'order': 'all 6 contig orders', 'case': 'original / upper / lower / alternating'}),
            dict(path='/verif/xh/h_c06.py', fname='_c06_form', params={}, timeout=300, self_reach=True, unblock=['open', 'os.remove', 'os.mkdir', 'shutil.rmtree', 'os.listdir', 'os.scandir', 'os.rmdir'], label='file level: line width / line endings / final newline / compression / file name',
                 bounds={'line width': '1, 7, 60, unwrapped', 'line endings': 'LF / CRLF', 'final newline': 'yes / no', 'compression': 'none / gzip / multi-member gzip (members split mid-record)',
                         'file name': 'genome.fasta / genome.fasta.gz / genome / genome.gz.txt (independent of the content)'})]
    xprop.run_jobs(run, jobs, rung='X: real parser and decompression on real scratch files')
    run.stubs.append('X: none (real scratch files of the chosen name and content; the real open / gzip / text / Bio.SeqIO layers run)')
    run.bounds = {'(k,prefix) grid': GRID, 'contig lengths': f'one contig up to {nmax}; two contigs with total {6 if tier == "quick" else 8}', 'bytes': 'all 256 values per position',
                  'compression': 'headers of 2..4 arbitrary bytes x 4 file names x text/binary mode'}
    run.outside = ['FASTA form variations beyond the pooled ones (other widths, other line-ending mixes), other genomes at file level', 'the gzip codec itself beyond the pooled files',
                   'more than two contigs (contigs are accumulated one by one by the same loop)', 'files shorter than 2 bytes']
    run.assumptions = ['as C01 (library models); open/gzip.GzipFile/TextIOWrapper replaced by tagging stubs so that the choice of wrapper is observable']
    return run.finish(
        rule='one obligation per (invariance, k, prefix, lengths); each quantifies over every byte (and every flip mask); non-trivial = discharged with a '
             'satisfiable witness (non-empty signature / a k-mer that only the concatenation would have / an actual flip)',
        explanation='Bounded model checking of calc_signature for strand, order/union and case invariance, and of the content-based compression choice.')
