"""C05 - bulk and parallel distance computations agree bit-for-bit with the pairwise one.
Engine K: the OpenMP loop of _jaccarddist_parallel (race freedom by disjoint read/write sets, cell identity, bounds).
Engine X: the Python layers (jaccarddist_array / matrix / pairwise, chunk_slices, container indexing) with tagged stubs."""
import ast
import itertools
import z3
import numpy as np

from vlib.common import Run, run_pool, HOLDS, VIOLATED, INCONCLUSIVE
from vlib import xprop, cybin

PID = 'C05'
H = '/verif/xh/h_c05.py'
TO = 300


def ob_parallel(dtq, dtr, nrefs, capq, capr, second=None):
    """_jaccarddist_parallel on symbolic query / concatenated references / bounds (invariant: first 0, non-decreasing,
    last = len(values)):
    (a) Bernstein: the only shared location an iteration writes is out[i]; no other iteration reads or writes it; the
        scalars assigned in the loop body are written before they are read (thread-private in Cython);
    (b) out[i] is the same term as c_jaccarddist(query, values[bounds[i]:bounds[i+1]]) - the function C02 verifies;
    (c) every read is in bounds."""
    from kbmc.harness import KSession, decide, model_int, lor, land, lnot
    from kbmc.sym import SymSeq, SInt, CVal, C_FLOAT, BASE_CTYPES, UNSET, is_sym, CannotEncode
    from kbmc.models import dtype_ctype
    from kbmc import interp as I
    from props import C02
    ks = KSession(max_unroll=capq + capr + 2, loop_bounds={'c_jaccarddist': capq + capr})
    ip = ks.ip
    Q, qc, ql, pq = C02.sym_array('q', capq, dtq)
    ctr = dtype_ctype(dtr)
    vc = [z3.BitVec(f'v_{i}', ctr.bits) for i in range(capr)]
    values = SymSeq(vc, ctr, 'ndarray', name='ref_coords', dtype=np.dtype(dtr).str)
    bc = [z3.BitVec(f'b_{i}', 64) for i in range(nrefs + 1)]
    bounds = SymSeq(bc, BASE_CTYPES['intptr_t'], 'ndarray', name='ref_bounds', dtype=np.dtype(np.intp).str)
    oc = [z3.FP(f'out0_{i}', z3.Float32()) for i in range(nrefs)]
    out = SymSeq(list(oc), C_FLOAT, 'ndarray', name='out', dtype='<f4')
    pre = list(pq) + [bc[0] == 0, bc[nrefs] == capr] + [bc[i] <= bc[i + 1] for i in range(nrefs)]
    # each segment strictly increasing
    for j in range(1, capr):
        same_seg = z3.Or(*[z3.And(bc[i] <= j - 1, j < bc[i + 1]) for i in range(nrefs)])
        pre.append(z3.Implies(same_seg, z3.ULT(vc[j - 1], vc[j])))
    ip.access_log = []
    fn = ks.lookup('gambit._cython.metric', '_jaccarddist_parallel')
    # tag accesses with the prange iteration they belong to
    node = fn.node
    loops = [n for n in ast.walk(node) if isinstance(n, ast.For) and isinstance(n.iter, ast.Call) and getattr(n.iter.func, 'id', '') == 'prange']
    if len(loops) != 1:
        raise CannotEncode(f'expected exactly one prange loop in _jaccarddist_parallel, found {len(loops)}')
    loop = loops[0]
    marks = []
    orig_for = ip.st_For

    def st_for(st):
        if st is loop:
            # unroll by hand so that the access log can be cut per iteration
            it = ip.eval(st.iter)
            items = ip.models.iterate(it, st)
            for g, v in items:
                start = len(ip.access_log)
                if g is not True:
                    ip.guards.append(g)
                try:
                    ip.assign_target(st.target, v, unconditional=True)
                    ip.exec_block(st.body)
                finally:
                    if g is not True:
                        ip.guards.pop()
                marks.append((v, start, len(ip.access_log)))
            return
        return orig_for(st)
    ip.st_For = st_for
    res = ks.call(fn, Q, values, bounds, out)
    if len(marks) != nrefs:
        raise CannotEncode(f'prange loop ran {len(marks)} iterations for {nrefs} references')
    # (a) Bernstein conditions on the shared buffers
    shared = {id(out.cells): 'out', id(values.cells): 'ref_coords', id(bounds.cells): 'ref_bounds', id(Q.cells): 'query'}
    per_iter = []
    for v, a, b in marks:
        per_iter.append([(k, id(seq.cells), pos, g) for (k, seq, pos, g) in ip.access_log[a:b] if id(seq.cells) in shared])
    conflicts = []
    for (i1, acc1), (i2, acc2) in itertools.permutations(list(enumerate(per_iter)), 2):
        for k1, s1, p1, g1 in acc1:
            if k1 != 'w':
                continue
            for k2, s2, p2, g2 in acc2:
                if s1 != s2:
                    continue
                same = (p1 == p2) if (isinstance(p1, int) and isinstance(p2, int)) else (p1 == p2)
                conflicts.append(land(g1, g2, same))
    race = lor(*conflicts)
    # scalars assigned in the loop body must be written before they are read within the body (private per thread)
    assigned = [t.id for st_ in loop.body for t in (st_.targets if isinstance(st_, ast.Assign) else []) if isinstance(t, ast.Name)]
    seen_w = set()
    scalar_dep = False
    for st_ in loop.body:
        reads = {n.id for n in ast.walk(st_.value if isinstance(st_, ast.Assign) else st_) if isinstance(n, ast.Name)}
        if any(r in assigned and r not in seen_w for r in reads):
            scalar_dep = True
        if isinstance(st_, ast.Assign):
            seen_w.update(t.id for t in st_.targets if isinstance(t, ast.Name))
        elif isinstance(st_, ast.AugAssign):
            scalar_dep = True      # reductions are not used by this loop; treat any as a dependence
    # (b) cell identity against the pairwise kernel on the same slice
    ip.access_log = None
    cj = ks.lookup('gambit._cython.metric', 'c_jaccarddist')
    ks.ip.reg.fused_binding.update({'COORDS_T': {16: 'uint16_t', 32: 'uint32_t', 64: 'uint64_t'}[dtype_ctype(dtq).bits],
                                   'COORDS_T_2': {16: 'uint16_t', 32: 'uint32_t', 64: 'uint64_t'}[ctr.bits]})
    wrong = []
    from kbmc.models import Models
    for i in range(nrefs):
        seg = ip.models.seq_slice(values, I.SymSlice(CVal(bc[i], BASE_CTYPES['intptr_t']), CVal(bc[i + 1], BASE_CTYPES['intptr_t']), None), True) if False else None
    side_before = len(ks.side())
    for i in range(nrefs):
        # reference value: the kernel applied to the i-th segment, built through the same slicing primitive the code uses
        ip.frames.append(I.Frame(None, fn.module))
        try:
            seg = ip.models.seq_slice(values, I.SymSlice(CVal(bc[i], BASE_CTYPES['intptr_t']), CVal(bc[i + 1], BASE_CTYPES['intptr_t']), None), c_context=True)
        finally:
            ip.frames.pop()
        ref = ks.call(cj, Q, seg)
        cell = out.cells[i]
        if not isinstance(ref.ret, CVal) or not is_sym(cell):
            wrong.append(True)
            continue
        wrong.append(lor(ref.raised, z3.Not(cell == ref.ret.z3())))
    viol = lor(res.raised, race, scalar_dep, *wrong)
    ex = lambda m: {'query': [model_int(m, c) for c in qc[:model_int(m, ql, True)]], 'values': [model_int(m, c) for c in vc], 'bounds': [model_int(m, c, True) for c in bc],
                    'dtypes': [dtq, dtr]}
    r = decide(f'parallel kernel {dtq}x{dtr} refs={nrefs} |query|<={capq} |values|={capr}', pre, viol, ks, ex, TO, second=second, abstract_fp=True, unwind_is_violation=True,
               reach_goals=[('two-nonempty-segments', z3.And(bc[1] > 0, bc[nrefs] > bc[nrefs - 1], ql >= 1)) if nrefs >= 2 else ('reach', True)],
               bounds={'references': nrefs, 'query length': f'<= {capq}', 'concatenated length': capr, 'dtypes': [dtq, dtr]})
    r['accesses_per_iteration'] = [len(a) for a in per_iter]
    return r


def replay_parallel(cex):
    from specs.jaccard_spec import py_dist
    sync, why = cybin.in_sync('metric')
    q = np.array(cex['query'], dtype=cex['dtypes'][0])
    v = np.array(cex['values'], dtype=cex['dtypes'][1])
    b = np.array(cex['bounds'], dtype=np.intp)
    want = [py_dist(q, v[b[i]:b[i + 1]]) for i in range(len(b) - 1)]
    if sync:
        import gambit._cython.metric as cm
        outs = []
        for rep in range(20):
            out = np.full(len(b) - 1, -1, dtype=np.float32)
            cm._jaccarddist_parallel(q, v, b, out)
            outs.append(out.tolist())
        bad = [o for o in outs if o != [float(x) for x in want]]
        return bool(bad), {'how': 'compiled _jaccarddist_parallel, 20 runs under the dynamic OpenMP schedule', 'got': outs[0] if not bad else bad[0], 'want': [float(x) for x in want]}
    # stale binary: sequential concrete evaluation of the translated source
    from kbmc.harness import KSession
    from kbmc.sym import SymSeq, BASE_CTYPES, C_FLOAT
    from kbmc.models import dtype_ctype
    ks = KSession(max_unroll=len(q) + len(v) + 3, loop_bounds={'c_jaccarddist': len(q) + len(v) + 1})
    out = SymSeq([np.float32(-1)] * (len(b) - 1), C_FLOAT, 'ndarray', dtype='<f4')
    ks.call(ks.lookup('gambit._cython.metric', '_jaccarddist_parallel'), SymSeq([int(x) for x in q], dtype_ctype(cex['dtypes'][0]), 'ndarray', dtype=q.dtype.str),
            SymSeq([int(x) for x in v], dtype_ctype(cex['dtypes'][1]), 'ndarray', dtype=v.dtype.str), SymSeq([int(x) for x in b], BASE_CTYPES['intptr_t'], 'ndarray', dtype=b.dtype.str), out)
    got = [None if isinstance(c, z3.ExprRef) else float(c) for c in out.cells]
    return got != [float(x) for x in want], {'how': f'sequential concrete evaluation of metric.pyx by engine K (binary stale: {why})', 'got': got, 'want': [float(x) for x in want]}


def main(tier):
    run = Run(PID, tier)
    second = 'cvc5' if tier == 'thorough' else None
    specs = []
    combos = [('u8', 'u8'), ('u2', 'u4'), ('u4', 'u2')] if tier == 'quick' else list(itertools.product(['u2', 'u4', 'u8'], repeat=2))
    for dq, dr in combos:
        specs.append(('props.C05', 'ob_parallel', dict(dtq=dq, dtr=dr, nrefs=2 if tier == 'quick' else 3, capq=2, capr=3 if tier == 'quick' else 4, second=second)))
    specs.append(('props.C05', 'ob_parallel', dict(dtq='u8', dtr='u8', nrefs=1, capq=1, capr=1)))
    specs.append(('props.C05', 'ob_parallel', dict(dtq='u4', dtr='u4', nrefs=3, capq=1, capr=2)))
    results = run_pool(specs, budget_s=2400 if tier == 'thorough' else 600)
    run.add_results(results, rung='K: OpenMP kernel')
    for r in results:
        if r['status'] == VIOLATED:
            cex = r.get('cex') or {}
            rep, detail = replay_parallel(cex) if cex else (False, {})
            rec = {'obligation': r['name'], 'inputs': cex, 'cex_kind': r.get('cex_kind'), 'replay': detail, 'spec': r['spec']}
            if rep:
                run.report_violation('metric.pyx/_jaccarddist_parallel', f'{r["name"]}: {cex} -> {detail}', rec)
            else:
                r['status'] = INCONCLUSIVE
                r['error'] = f'counterexample did not reproduce on the real code: {rec}'
                run.inconclusive.append(r)
    jobs = []
    big = tier != 'quick'
    base = {'maxq': 3 if big else 2, 'maxr': 4 if big else 3, 'maxsel': 3 if big else 2}
    for kind in range(4):
        kn = ['SignatureArray', 'SignatureList', 'list', 'HDF5Signatures (signature file on disk)'][kind]
        jobs.append(dict(path=H, fname='_c05_matrix', params=dict(base, kind=kind), timeout=2400 if big else 400, self_reach=True, label=f'jaccarddist_matrix refs in {kn}',
                         bounds={'queries': f'1..{base["maxq"]}', 'references': f'1..{base["maxr"]}', 'chunksize': f'None, 1..{base["maxr"] + 1}', 'ref_indices': f'None, empty, up to {base["maxsel"]} indices with repeats',
                                 'out': 'supplied or not', 'queries container': 'SignatureArray or list'}))
        jobs.append(dict(path=H, fname='_c05_pairwise', params=dict(base, kind=kind), timeout=1200 if big else 300, self_reach=True, label=f'jaccarddist_pairwise over {kn}',
                         bounds={'signatures': f'1..{base["maxr"]}', 'indices': f'None, empty, up to {base["maxsel"] + 1} indices with repeats', 'flat': 'both', 'out': 'supplied or not'}))
    if not big:
        # long selections (3 / 4 indices with repeats and any order) on the array-backed container, fixed sizes
        long_ = {'maxq': 1, 'maxr': 3, 'maxsel': 3, 'kind': 0, 'longsel': 1}
        jobs.append(dict(path=H, fname='_c05_matrix', params=long_, timeout=300, self_reach=True, label='jaccarddist_matrix refs in SignatureArray, selections of 3 indices',
                         bounds={'queries': 1, 'references': 3, 'chunksize': 'None, 1..4', 'ref_indices': 'every sequence of 3 indices (repeats, any order)'}))
        jobs.append(dict(path=H, fname='_c05_pairwise', params=dict(long_, maxr=4, maxsel=3), timeout=300, self_reach=True, label='jaccarddist_pairwise over SignatureArray, selections of 4 indices',
                         bounds={'signatures': 4, 'indices': 'every sequence of 4 indices (repeats, any order)', 'flat': 'both'}))
    jobs.append(dict(path=H, fname='_c05_array', params=base, timeout=200, self_reach=True, label='jaccarddist_array', bounds={'references': f'0..{base["maxr"]}', 'containers': 'all three', 'query dtypes': 'u4 i4 u8 i8 u2'}))
    jobs.append(dict(path=H, fname='_c05_chunks', params={}, timeout=200, self_reach=True, label='chunk_slices', bounds={'n': '0..12', 'size': '-1..14'}))
    jobs.sort(key=lambda j: -j['timeout'])
    xprop.run_jobs(run, jobs, rung='X: python layers')
    xprop.note_sources(run, ['src/gambit/metric.py', 'src/gambit/util/misc.py', 'src/gambit/sigs/base.py', 'src/gambit/_cython/metric.pyx'])
    run.bounds = {'K': 'prange over 1..3 references, query <= 2 elements, concatenated references <= 4 elements, symbolic bounds array, dtype pairs',
                  'X': 'see obligations'}
    run.stubs = ['X: gambit._cython.metric.jaccarddist / _jaccarddist_parallel -> tagged value identifying (query, reference)']
    run.outside = ['the OpenMP runtime and the C compiler honouring Cython\'s private/shared classification', 'threads.pyx (omp_set_num_threads)',
                   'thread counts: schedule independence is shown by disjointness of the iterations\' read/write sets, not by running threads']
    run.assumptions = ['Bernstein conditions: iterations whose write sets are disjoint from each other\'s read and write sets give the sequential result under every schedule',
                       'cell identity is decided with FP operators as uninterpreted functions first (congruence), then precisely',
                       'C02 decides that the pairwise kernel itself is correct']
    return run.finish(
        rule='K: one obligation per (dtype pair, sizes) over all array contents and all bounds arrays satisfying the invariant; X: one CrossHair condition per function and container; '
             'non-trivial = discharged with a reachability witness (two non-empty segments) / confirmed over all cells',
        explanation='Race freedom and cell identity of the OpenMP loop by SMT over symbolic read/write sets; data flow of the Python layers by CrossHair-driven exhaustive case split with tagged stubs.')
