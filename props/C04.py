"""C04 - each reference genome is compared through its own signature, matched by ID.  Engine X."""
from vlib.common import Run
from vlib import xprop

PID = 'C04'
H = '/verif/xh/h_c04.py'


def main(tier):
    run = Run(PID, tier)
    jobs = [dict(path=H, fname='_c04_locate', params={}, timeout=200, self_reach=True, label='locate_files: directory contents',
                 bounds={'directory': 'every subset of a.gdb b.db c.gs d.h5 e.txt sub.gs.bak f.GS'})]
    sizes = [(3, 4)] if tier == 'quick' else [(3, 5), (4, 5), (2, 4)]
    for ng, slots in sizes:
        jobs.append(dict(path=H, fname='_c04_load', params={'genomes': ng, 'slots': slots}, timeout=400 if tier == 'quick' else 2400, self_reach=True,
                         label=f'ReferenceDatabase load + query: {ng} genomes, signature file with up to {slots} IDs',
                         bounds={'genomes': ng, 'signature IDs': f'every arrangement of up to {slots} distinct IDs (genome IDs in any order, up to 2 unrelated IDs, genomes possibly missing)',
                                 'id_attr': 'key / genbank_acc / refseq_acc / ncbi_id / None / an unknown name'}))
    for world, what in ((1, 'two genomes share an NCBI uid (different NCBI databases)'), (2, 'one genome has no RefSeq accession')):
        jobs.append(dict(path=H, fname='_c04_load', params={'genomes': 3, 'slots': 4, 'world': world}, timeout=400 if tier == 'quick' else 1200, self_reach=True,
                         label=f'ReferenceDatabase load + query: {what}',
                         bounds={'genomes': 3, 'genome set': what, 'signature IDs': 'every arrangement of up to 4 IDs', 'id_attr': 'all four / None / unknown',
                                 'expected': 'loading by the affected attribute fails (some genome cannot have a signature of its own); the other attributes behave as usual'}))
    jobs.append(dict(path=H, fname='_c04_files', params={'files': 1}, timeout=600, self_reach=True, unblock=['sqlite3.connect', 'sqlite3.connect/handle'], label='load_from_dir on real SQLite + HDF5 files, real query',
                     bounds={'genomes': 3, 'signature order': 'all 6 permutations', 'unrelated signature': 'none or at each of 4 positions', 'id_attr': 'all four (string and integer IDs)'}))
    xprop.run_jobs(run, jobs, rung=tier)
    xprop.note_sources(run, ['src/gambit/db/refdb.py', 'src/gambit/query.py', 'src/gambit/db/models.py'])
    run.bounds = {'genome set': '2..4 genomes in an in-memory SQLite database (plus one genome outside the set)', 'signature file': 'IDs in every order with unrelated extras / missing genomes',
                  'identifier attribute': 'all four, None, invalid', 'directory': '2^7 content subsets'}
    run.stubs = ['signature file -> object with ids + metadata (reading IDs out of HDF5 is outside)', 'jaccarddist_matrix -> tags each column with the index of the signature used',
                 'get_result_item -> records the distance row handed to classification', 'Path.iterdir -> chosen file names']
    run.outside = ['HDF5 / SQLite files beyond the pooled directories (3 genomes, 120 arrangements)', 'duplicate IDs in the signature file (the property assumes unique IDs)']
    run.assumptions = ['the solver enumerates the finite arrangement space through fork_int; the real code (SQLAlchemy queries included) runs natively on each cell']
    return run.finish(
        rule='one CrossHair condition for loading/querying per (genome count, ID slots) and one for directory contents; non-trivial = confirmed over all cells '
             '(each cell either pairs every genome with the signature carrying its ID and routes that signature\'s distances to it, or fails in exactly the stated situations)',
        explanation='CrossHair-driven exhaustive case split over ID arrangements on the real ReferenceDatabase / query code with an in-memory database.')
