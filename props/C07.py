"""C07 - k-mer/index conversion is the base-4 bijection, consistent with revcomp.  Engine K on kmers.pyx."""
import os
import z3

from vlib.common import Run, run_pool, HOLDS, VIOLATED, INCONCLUSIVE
from vlib import cybin
from kbmc.harness import *
from kbmc.sym import *
from specs import kmers_spec as S

MOD = 'gambit._cython.kmers'
PID = 'C07'
TO = 300


def _cells_extract(cells, extra=None):
    def ex(m):
        d = {'kmer_hex': model_bytes(m, cells).hex()}
        if extra:
            d.update({k: model_int(m, v) for k, v in extra.items()})
        return d
    return ex


def ob_encode(k, second=None):
    """valid => index = spec and no error; invalid => ValueError."""
    ks = KSession()
    seq, cells = sym_bytes('b', k)
    out = ks.call(ks.lookup(MOD, 'kmer_to_index'), seq)
    valid = S.valid_kmer(cells)
    spec = S.kmer_index(cells)
    if out.ret is UNSET:
        viol = valid
    else:
        ret = out.ret.z3() if isinstance(out.ret, CVal) else None
        if ret is None or out.ret.ctype.bits != 64 or out.ret.ctype.signed:
            raise CannotEncode(f'kmer_to_index returned {out.ret!r}')
        viol = lor(land(valid, lor(out.raised, ret != spec, z3.UGE(ret, 1 << (2 * k)) if k < 32 else False)),
                   land(lnot(valid), lnot(out.raises('ValueError'))))
    return decide(f'encode k={k}', [], viol, ks, _cells_extract(cells), TO,
                  reach_goals=[('valid-input', valid), ('invalid-input', z3.Not(valid))], second=second,
                  bounds={'k': k, 'bytes': 'all 256 values per position'})


def ob_encode_rc(k, second=None):
    """kmer_to_index_rc(x) == kmer_to_index(revcomp(x)), errors agreeing; and == spec index of spec revcomp."""
    ks = KSession()
    seq, cells = sym_bytes('b', k)
    o_rc = ks.call(ks.lookup(MOD, 'kmer_to_index_rc'), seq)
    rc = ks.call(ks.lookup(MOD, 'revcomp'), seq)
    if rc.ret is UNSET or not isinstance(rc.ret, SymSeq):
        raise CannotEncode('revcomp returned no sequence')
    o_fw = ks.call(ks.lookup(MOD, 'kmer_to_index'), rc.ret)
    valid = S.valid_kmer(cells)
    spec = S.kmer_index(S.revcomp(cells))
    a = o_rc.ret.z3() if isinstance(o_rc.ret, CVal) else z3.BitVecVal(0, 64)
    b = o_fw.ret.z3() if isinstance(o_fw.ret, CVal) else z3.BitVecVal(0, 64)
    rA, rB = o_rc.raised, o_fw.raised
    tb = lambda x: x if is_sym(x) else z3.BoolVal(x)
    viol = lor(rc.raised,
               tb(rA) != tb(rB),
               land(lnot(rA), a != b),
               land(valid, lor(rA, a != spec)),
               land(lnot(valid), lnot(o_rc.raises('ValueError'))))
    return decide(f'encode_rc k={k}', [], viol, ks, _cells_extract(cells), TO,
                  reach_goals=[('valid-input', valid), ('invalid-input', z3.Not(valid))], second=second,
                  bounds={'k': k})


def ob_decode(k, second=None):
    """index_to_kmer(index,k) for index < 4^k is upper-case ACGT spelling the base-4 digits; both round trips."""
    ks = KSession()
    idx = z3.BitVec('index', 64)
    pre = [z3.ULT(idx, 1 << (2 * k))] if k < 32 else []
    o = ks.call(ks.lookup(MOD, 'index_to_kmer'), CVal(idx, BASE_CTYPES['uint64_t']), k)
    if o.ret is UNSET or not isinstance(o.ret, SymSeq) or o.ret.plain_cells() is None or len(o.ret.plain_cells()) != k:
        viol = True
        cells = []
    else:
        cells = o.ret.plain_cells()
        wrong = [(c if is_sym(c) else z3.BitVecVal(c, 8)) != S.index_digit_char(idx, k, j) for j, c in enumerate(cells)]
        back = ks.call(ks.lookup(MOD, 'kmer_to_index'), o.ret)
        bret = back.ret.z3() if isinstance(back.ret, CVal) else z3.BitVecVal(0, 64)
        viol = lor(o.raised, lor(*wrong), back.raised, bret != idx, o.ret.pytype != 'bytes')
    ex = lambda m: {'index': model_int(m, idx), 'k': k}
    return decide(f'decode k={k}', pre, viol, ks, ex, TO, second=second, bounds={'k': k, 'index': f'every value < 4^{k}'})


def ob_roundtrip(k, second=None):
    """index_to_kmer(kmer_to_index(x)) == fold(x) for every valid x (with ob_decode: mutually inverse bijections).
    Compositional: ob_encode(k) shows kmer_to_index(x) == Spec.index(x) for valid x, so the decoder is run on the
    spec term (the digits of x concatenated) rather than on the encoder's own term."""
    ks = KSession()
    seq, cells = sym_bytes('b', k)
    valid = S.valid_kmer(cells)
    d = ks.call(ks.lookup(MOD, 'index_to_kmer'), CVal(S.kmer_index(cells), BASE_CTYPES['uint64_t']), k)
    if not isinstance(d.ret, SymSeq) or d.ret.plain_cells() is None or len(d.ret.plain_cells()) != k:
        viol = True
    else:
        neq = [(c if is_sym(c) else z3.BitVecVal(c, 8)) != S.fold(x) for c, x in zip(d.ret.plain_cells(), cells)]
        viol = lor(d.raised, *neq)
    return decide(f'roundtrip k={k}', [valid], viol, ks, _cells_extract(cells), TO, second=second, bounds={'k': k})


def ob_revcomp(n, second=None):
    """revcomp: out[n-1-i] = comp(seq[i]) for arbitrary bytes; involution."""
    ks = KSession()
    seq, cells = sym_bytes('s', n)
    o = ks.call(ks.lookup(MOD, 'revcomp'), seq)
    if not isinstance(o.ret, SymSeq) or o.ret.plain_cells() is None or len(o.ret.plain_cells()) != n:
        viol = True
    else:
        oc = o.ret.plain_cells()
        spec = S.revcomp(cells)
        neq = [(c if is_sym(c) else z3.BitVecVal(c, 8)) != sp for c, sp in zip(oc, spec)]
        o2 = ks.call(ks.lookup(MOD, 'revcomp'), o.ret)
        inv = [(c if is_sym(c) else z3.BitVecVal(c, 8)) != x for c, x in zip(o2.ret.plain_cells(), cells)] if isinstance(o2.ret, SymSeq) else [True]
        # input must be left untouched
        same_in = [a is not b for a, b in zip(seq.cells, cells)]
        viol = lor(o.raised, o2.raised, *neq, *inv, any(same_in), o.ret.pytype != 'bytes')
    return decide(f'revcomp n={n}', [], viol, ks, _cells_extract(cells), TO, second=second,
                  bounds={'n': n, 'bytes': 'all 256 values per position'},
                  reach_goals=[('reach', True)] if n else None)


def ob_too_long(n, second=None):
    """len > 32 => ValueError for both encoders, whatever the content."""
    ks = KSession(max_unroll=40)
    seq, cells = sym_bytes('b', n)
    o1 = ks.call(ks.lookup(MOD, 'kmer_to_index'), seq)
    o2 = ks.call(ks.lookup(MOD, 'kmer_to_index_rc'), seq)
    viol = lor(lnot(o1.raises('ValueError')), lnot(o2.raises('ValueError')))
    return decide(f'too_long n={n}', [], viol, ks, _cells_extract(cells), TO, second=second, bounds={'n': n})


def ob_wrapper(k, pytype, second=None):
    """The Python-level entry points gambit.kmers.kmer_to_index / kmer_to_index_rc (seq_to_bytes + kernel) for each of the
    four sequence types: same coding, same rejection, as the kernels."""
    ks = KSession()
    seq, cells = sym_bytes('b', k, pytype)
    pre = [z3.ULT(c, 128) for c in cells] if pytype in ('str', 'Seq') else []
    o1 = ks.call(ks.lookup('gambit.kmers', 'kmer_to_index'), seq)
    o2 = ks.call(ks.lookup('gambit.kmers', 'kmer_to_index_rc'), seq)
    valid = S.valid_kmer(cells)
    spec1, spec2 = S.kmer_index(cells), S.kmer_index(S.revcomp(cells))
    r1 = o1.ret.z3() if isinstance(o1.ret, CVal) else z3.BitVecVal(0, 64)
    r2 = o2.ret.z3() if isinstance(o2.ret, CVal) else z3.BitVecVal(0, 64)
    viol = lor(land(valid, lor(o1.raised, o2.raised, r1 != spec1, r2 != spec2)),
               land(lnot(valid), lor(lnot(o1.raises('ValueError')), lnot(o2.raises('ValueError')))))
    ex = lambda m: {'kmer_hex': model_bytes(m, cells).hex(), 'type': pytype}
    return decide(f'wrapper k={k} type={pytype}', pre, viol, ks, ex, TO, second=second,
                  reach_goals=[('valid-input', valid), ('invalid-input', z3.Not(valid))], bounds={'k': k, 'type': pytype})


def ob_tables(second=None):
    """nkmers(k) = 4^k and index_dtype(k) = the smallest unsigned dtype holding 4^k - 1, for k = 1..32 (None above);
    KmerSpec derives its attributes from them.  Concrete evaluation of the translated source (no free variables)."""
    import numpy as np
    ks = KSession()
    bad = []
    for k in range(1, 35):
        n = ks.call(ks.lookup('gambit.kmers', 'nkmers'), k).ret
        dt = ks.call(ks.lookup('gambit.kmers', 'index_dtype'), k).ret
        want = None if k > 32 else np.dtype(S.index_dtype_str(k))
        if n != 4 ** k or dt != want:
            bad.append((k, n, str(dt)))
    for k, prefix in ((1, 'A'), (4, 'AT'), (5, 'ATG'), (8, 'atgac'), (9, 'T'), (16, 'AC'), (17, 'ACGT'), (32, 'G')):
        o = ks.call(ks.lookup('gambit.kmers', 'KmerSpec'), k, prefix)
        f = o.ret.fields if o.ret is not UNSET else {}
        want = dict(k=k, prefix=prefix.upper().encode(), prefix_str=prefix.upper(), prefix_len=len(prefix), total_len=k + len(prefix), nkmers=4 ** k,
                    index_dtype=np.dtype(S.index_dtype_str(k)))
        if o.raised is not False or any(f.get(a) != v for a, v in want.items()):
            bad.append(('KmerSpec', k, prefix, {a: str(f.get(a)) for a in want}))
    for k, prefix in ((0, 'A'), (3, 'AN'), (3, 'A-')):
        o = ks.call(ks.lookup('gambit.kmers', 'KmerSpec'), k, prefix)
        if o.raised is not True:
            bad.append(('KmerSpec accepted', k, prefix))
    res = {'name': 'tables: nkmers / index_dtype / KmerSpec attributes', 'queries': [{'q': 'concrete evaluation', 'result': 'unsat' if not bad else 'sat', 'time_s': 0.0}],
           'bounds': {'k': '1..34'}, 'encoded': ks.encoded, 'reach': 'sat', 'sample': {'k': 9, 'index_dtype': 'u4', 'nkmers': 4 ** 9}}
    if bad:
        res['status'] = VIOLATED
        res['cex'] = {'tables': [str(b) for b in bad[:5]]}
        res['cex_kind'] = 'concrete'
    else:
        res['status'] = HOLDS
    return res


# ------------------------------------------------------------------------------------------------ replay

def replay_cex(kind, cex):
    """Re-run a counterexample on the real code.  Returns (reproduces, detail)."""
    sync, why = cybin.in_sync('kmers')
    if sync:
        import gambit._cython.kmers as ck
        impl = {'kmer_to_index': ck.kmer_to_index, 'kmer_to_index_rc': ck.kmer_to_index_rc,
                'index_to_kmer': ck.index_to_kmer, 'revcomp': ck.revcomp}
        how = 'compiled extension (in sync with kmers.pyx)'
    else:
        impl = concrete_impl()
        how = f'concrete evaluation of kmers.pyx by engine K (binary stale: {why})'

    def call(name, *a):
        try:
            return ('ok', impl[name](*a))
        except ValueError:
            return ('ValueError', None)
        except Exception as e:   # noqa
            return (type(e).__name__, None)

    bad = []
    if 'tables' in cex:
        import numpy as np
        import gambit.kmers as gk
        for k in range(1, 35):
            want = None if k > 32 else np.dtype(S.index_dtype_str(k))
            if gk.nkmers(k) != 4 ** k or gk.index_dtype(k) != want:
                bad.append(f'nkmers({k})={gk.nkmers(k)} index_dtype({k})={gk.index_dtype(k)}')
        for k, prefix in ((4, 'AT'), (8, 'atgac'), (9, 'T'), (17, 'ACGT')):
            sp = gk.KmerSpec(k, prefix)
            if (sp.k, sp.prefix, sp.prefix_len, sp.total_len, sp.nkmers, sp.index_dtype) != (k, prefix.upper().encode(), len(prefix), k + len(prefix), 4 ** k, np.dtype(S.index_dtype_str(k))):
                bad.append(f'KmerSpec({k},{prefix!r}) attributes {sp.__dict__ if hasattr(sp, "__dict__") else sp}')
        return bool(bad), {'how': 'real gambit.kmers', 'mismatches': bad}
    if 'type' in cex and 'kmer_hex' in cex:
        import gambit.kmers as gk
        from Bio.Seq import Seq
        b = bytes.fromhex(cex['kmer_hex'])
        conv = {'bytes': bytes, 'bytearray': bytearray, 'str': lambda x: x.decode('latin-1'), 'Seq': lambda x: Seq(bytes(x))}[cex['type']]
        for fn, spec in (('kmer_to_index', S.py_kmer_index(b)), ('kmer_to_index_rc', S.py_kmer_index(S.py_revcomp(b)))):
            try:
                got = ('ok', getattr(gk, fn)(conv(b)))
            except ValueError:
                got = ('ValueError', None)
            except Exception as e:   # noqa
                got = (type(e).__name__, None)
            want = ('ok', spec) if spec is not None else ('ValueError', None)
            if got != want:
                bad.append(f'gambit.kmers.{fn}({conv(b)!r}) -> {got}; expected {want}')
        return bool(bad), {'how': 'real gambit.kmers wrappers', 'mismatches': bad}
    if 'kmer_hex' in cex:
        b = bytes.fromhex(cex['kmer_hex'])
        if kind.startswith(('encode', 'roundtrip', 'too_long')):
            for fn, spec in (('kmer_to_index', S.py_kmer_index(b) if len(b) <= 32 else None),
                             ('kmer_to_index_rc', S.py_kmer_index(S.py_revcomp(b)) if len(b) <= 32 else None)):
                st, v = call(fn, b)
                want = ('ok', spec) if spec is not None else ('ValueError', None)
                if (st, v) != want:
                    bad.append(f'{fn}({b!r}) -> {st},{v}; expected {want}')
            if S.py_kmer_index(b) is not None and len(b) <= 32:
                st, v = call('index_to_kmer', S.py_kmer_index(b), len(b))
                if (st, v) != ('ok', b.upper()):
                    bad.append(f'index_to_kmer({S.py_kmer_index(b)},{len(b)}) -> {st},{v}; expected {b.upper()!r}')
        if kind.startswith('revcomp') or kind.startswith('encode_rc'):
            st, v = call('revcomp', b)
            if (st, v) != ('ok', S.py_revcomp(b)):
                bad.append(f'revcomp({b!r}) -> {st},{v}; expected {S.py_revcomp(b)!r}')
    if 'index' in cex:
        i, k = cex['index'], cex['k']
        st, v = call('index_to_kmer', i, k)
        if (st, v) != ('ok', S.py_index_to_kmer(i, k)):
            bad.append(f'index_to_kmer({i},{k}) -> {st},{v}; expected {S.py_index_to_kmer(i, k)!r}')
        elif call('kmer_to_index', v) != ('ok', i):
            bad.append(f'kmer_to_index(index_to_kmer({i},{k})) != {i}')
    return bool(bad), {'how': how, 'mismatches': bad}


def concrete_impl():
    """The four kernels evaluated concretely from the current kmers.pyx by engine K."""
    def mk(name):
        def f(*args):
            ks = KSession(max_unroll=80)
            conv = [conc_bytes(a) if isinstance(a, (bytes, bytearray)) else a for a in args]
            o = ks.call(ks.lookup(MOD, name), *conv)
            if o.raised is True:
                raise {1: ValueError, 2: TypeError, 3: IndexError, 6: OverflowError}.get(o.code, RuntimeError)()
            r = o.ret
            if isinstance(r, CVal):
                return r.term
            if isinstance(r, SymSeq):
                return bytes(r.plain_cells())
            return r
        return f
    return {n: mk(n) for n in ('kmer_to_index', 'kmer_to_index_rc', 'index_to_kmer', 'revcomp')}


def validate_translator(run):
    """Serval-style: the repository's own test vectors and random vectors through the compiled kernels (if in sync)
    and through the concrete evaluator of the translated source; both must agree."""
    import random
    rnd = random.Random(int(os.environ.get('VERIF_SEED', '0') or 0))
    sync, why = cybin.in_sync('kmers')
    ci = concrete_impl()
    vecs = [b'', b'A', b'T', b'ACGT', b'acgt', b'AcGt', b'ATGAC', b'N', b'ACGN', b'T' * 32, b'A' * 32, b'G' * 33,
            b'TGTTAGATAC', b'\x00', b'\xff', b'!', b'a' * 31 + b'C']
    for _ in range(40):
        n = rnd.randint(0, 33)
        vecs.append(bytes(rnd.choice(b'ACGTacgtNn\x00\x01!A') for _ in range(n)))
    n_checked = 0
    mism = []
    if sync:
        import gambit._cython.kmers as ck
    for v in vecs:
        for fn in ('kmer_to_index', 'kmer_to_index_rc', 'revcomp'):
            try:
                a = ('ok', ci[fn](v))
            except Exception as e:  # noqa
                a = (type(e).__name__, None)
            if fn == 'revcomp':
                want = ('ok', S.py_revcomp(v))
            else:
                src = v if fn == 'kmer_to_index' else S.py_revcomp(v)
                sp = S.py_kmer_index(src) if len(v) <= 32 else None
                want = ('ok', sp) if sp is not None else ('ValueError', None)
            if sync:
                try:
                    b = ('ok', getattr(ck, fn)(v))
                except Exception as e:  # noqa
                    b = (type(e).__name__, None)
                if a != b:
                    mism.append((fn, v, a, b))
            n_checked += 1
    for k in (1, 2, 5, 11, 32):
        for _ in range(4):
            i = rnd.randrange(4 ** k)
            a = ci['index_to_kmer'](i, k)
            if sync and a != ck.index_to_kmer(i, k):
                mism.append(('index_to_kmer', i, k, a))
            n_checked += 1
    run.extra['translator_validation'] = {'vectors': n_checked, 'compiled_in_sync': sync, 'sync_detail': why,
                                          'mismatches': [str(m) for m in mism[:5]]}
    return mism


def main(tier):
    run = Run(PID, tier)
    sync, why = cybin.in_sync('kmers')
    run.log(f'binary sync: {sync} ({why})')
    mism = validate_translator(run)
    if mism:
        run.log('translator validation mismatch', mism[:3])
        run.inconclusive.append({'name': 'translator-validation', 'status': INCONCLUSIVE, 'error': str(mism[:3])})
    specs = []
    ks_all = list(range(1, 33))
    for k in ks_all:
        second = None if tier != 'thorough' else ('cvc5' if k <= 12 else 'z3bin')
        specs.append(('props.C07', 'ob_encode', {'k': k, 'second': second}))
        specs.append(('props.C07', 'ob_encode_rc', {'k': k, 'second': second}))
        specs.append(('props.C07', 'ob_decode', {'k': k, 'second': second}))
        specs.append(('props.C07', 'ob_roundtrip', {'k': k, 'second': second}))
    second = 'z3bin' if tier == 'thorough' else None
    for n in range(0, 33):
        specs.append(('props.C07', 'ob_revcomp', {'n': n, 'second': second}))
    for n in (33, 34) + ((35, 40) if tier == 'thorough' else ()):
        specs.append(('props.C07', 'ob_too_long', {'n': n, 'second': second}))
    for k in ((1, 2, 3, 5, 8, 16, 32) if tier == 'quick' else (1, 2, 3, 4, 5, 8, 11, 12, 16, 24, 32)):
        for pytype in ('bytes', 'bytearray', 'str', 'Seq'):
            specs.append(('props.C07', 'ob_wrapper', {'k': k, 'pytype': pytype, 'second': None}))
    specs.append(('props.C07', 'ob_tables', {}))
    # largest first so that the pool is balanced
    specs.sort(key=lambda s: -(s[2].get('k') or s[2].get('n') or 0))
    results = run_pool(specs, budget_s=1500 if tier == 'thorough' else 600)
    run.add_results(results, rung='k=1..32')
    for r in results:
        if r['status'] == VIOLATED:
            kind = r['name']
            rep, detail = replay_cex(kind, r.get('cex', {}))
            cex = {'obligation': kind, 'inputs': r.get('cex'), 'cex_kind': r.get('cex_kind'), 'replay': detail, 'spec': r['spec']}
            if rep:
                run.report_violation(f'kmers.pyx/{kind.split()[0]}', f'{kind}: {detail["mismatches"][:2]}', cex)
            else:
                r['status'] = INCONCLUSIVE
                r['error'] = f'counterexample did not reproduce on the real code: {cex}'
                run.inconclusive.append(r)
    run.bounds = {'k': '1..32 (the whole domain of the kernels)', 'revcomp length': '0..32', 'bytes': 'every position ranges over all 256 values',
                  'index': 'every 64-bit value below 4^k'}
    run.outside = ['index_to_kmer with index >= 4^k or negative (Python->uint64 conversion generated by Cython)',
                   'kmer_to_index on str (rejected by the memoryview conversion generated by Cython)', 'revcomp of sequences longer than 32']
    run.assumptions = ['Cython semantics as modelled by kbmc (C integer promotions, memoryview indexing without wraparound/boundscheck)',
                       'the .pyx text is the source of truth; compiled extension used for replay only when its embedded source matches']
    return run.finish(
        rule='one obligation per (function group, k); each is a set of SMT queries over all 256^k byte strings / all indices < 4^k; '
             'non-trivial = discharged with a satisfiable reachability twin',
        explanation='Bounded model checking of the translated kmers.pyx: negated property unsat for every k<=32.')
