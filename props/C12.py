"""C12 - signature files round-trip exactly and foreign files are refused.  Engine X (solver-enumerated pools on real files)."""
from vlib.common import Run
from vlib import xprop

PID = 'C12'
H = '/verif/xh/h_c12.py'
CONTAINERS = ['SignatureArray', 'SignatureList', 'AnnotatedSignatures(SignatureArray)', 'AnnotatedSignatures(SignatureList)', 'HDF5Signatures (re-dumped)']
COMP = ['no filter', 'gzip', 'gzip level 9', 'lzf']
UNBLOCK = ['open', 'os.remove', 'os.mkdir', 'shutil.rmtree', 'os.listdir', 'os.scandir', 'os.rmdir']


def main(tier):
    run = Run(PID, tier, level='exploration')
    jobs = []
    for cont in range(len(CONTAINERS)):
        for ci in range(len(COMP)):
            prm = {'cont': cont, 'ci': ci}
            if tier == 'quick':
                prm['fast'] = 6
            jobs.append(dict(path=H, fname='_c12_roundtrip', params=prm, timeout=300 if tier == 'quick' else 1500, self_reach=True, unblock=UNBLOCK,
                             label=f'round trip of {CONTAINERS[cont]}, {COMP[ci]}',
                             bounds={'container': CONTAINERS[cont], 'compression': COMP[ci], 'ids': 'ASCII strings / Unicode strings / integers > 2^40 / numpy str array (integer range for unannotated collections)',
                                     'metadata': 'default / every field set with Unicode text and nested extra data / None and empty fields',
                                     'k-mer parameters x stored integer type x signature lengths': ('every sixth of ' if tier == 'quick' else 'all of ') + '7 KmerSpecs (k = 1, 8 twice - two prefixes of the same length, written and loaded in one process -, 11, 16, 17, 32) x u1/u2/u4/u8 x 6 length patterns (all empty, single, mixed with empty ones)',
                                     'indices compared after loading': 'every integer index, every slice with start/stop in [-n-1, n+1] or None and step in {None, 1, 2, -1, -2}, index lists (every list of three valid indices for collections of up to 3; all orders of four and lists with repeated / permuted interiors for longer ones) as list and intp array, one mask'}))
    jobs.append(dict(path=H, fname='_c12_foreign', params={}, timeout=300, self_reach=True, unblock=UNBLOCK, label='foreign files are refused with SignaturesFileError',
                     bounds={'contents': 'empty, plain text, FASTA, gzip FASTA, one byte, HDF5 magic + text, empty HDF5, HDF5 with look-alike datasets, HDF5 with the marker on a sub-group, SQLite header', 'file names': 'x.gs, x.h5, x.fasta, x'}))
    xprop.run_jobs(run, jobs, rung=tier)
    run.extra['evaluations'] = sum(r.get('cells_executed', 0) for r in run.obligations)
    run.extra['distinct_nontrivial'] = sum(r.get('cells_distinct', 0) for r in run.obligations if r.get('status') == 'holds')
    run.extra['exhaustive'] = all(r.get('status') == 'holds' for r in run.obligations)
    run.samples.extend({'cell': r['cell_sample']} for r in run.obligations[:6] if r.get('cell_sample'))
    xprop.note_sources(run, ['src/gambit/sigs/hdf5.py', 'src/gambit/sigs/base.py'])
    run.bounds = {'collections': 'pools described per obligation', 'files': 'written to and read from scratch files through the real h5py'}
    run.stubs = ['none: real h5py / libhdf5 on scratch files']
    run.outside = ['collections, IDs and metadata outside the pools', 'szip compression (not available in this h5py build)', 'a file that only starts with the HDF5 magic number (rejected by libhdf5 with OSError)', 'libhdf5 itself']
    run.assumptions = ['the solver enumerates container / ID kind / metadata / compression; the other pooled dimensions are looped over inside each cell (bounded-exhaustive over pools, not over all collections)']
    return run.finish(
        rule='one CrossHair condition per (container, compression) plus one for foreign files; non-trivial = confirmed over all cells',
        explanation='Solver-enumerated pools of collections written with the real dump_signatures, loaded back with the real load_signatures and compared index by index, dtype included.')
