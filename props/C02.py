"""C02 - Jaccard distance equals |A xor B| / |A or B| correctly rounded to float32.  Engine K on metric.pyx + metric.py."""
import os
import itertools
import z3
import numpy as np

from vlib.common import Run, run_pool, HOLDS, VIOLATED, INCONCLUSIVE
from vlib import cybin
from kbmc.harness import *
from kbmc.sym import *
from kbmc.models import dtype_ctype
from kbmc import smt
from specs import jaccard_spec as J

PID = 'C02'
TO = 900
DTYPES = ['u2', 'u4', 'u8', 'i2', 'i4', 'i8']


def sym_array(name, cap, dtype):
    """1-d numpy array of symbolic length <= cap, strictly increasing, non-negative."""
    ct = dtype_ctype(dtype)
    cells = [z3.BitVec(f'{name}_{i}', ct.bits) for i in range(cap)]
    ln = z3.BitVec(f'{name}_len', 32)
    pre = [ln >= 0, ln <= cap]
    lt = (lambda x, y: x < y) if ct.signed else z3.ULT
    for i in range(1, cap):
        pre.append(z3.Implies(z3.BitVecVal(i, 32) < ln, lt(cells[i - 1], cells[i])))
    if ct.signed:
        for i in range(cap):
            pre.append(z3.Implies(z3.BitVecVal(i, 32) < ln, cells[i] >= 0))
    seq = SymSeq(cells, ct, 'ndarray', 0, SInt(ln, ub=cap), name=name, dtype=np.dtype(dtype).str)
    return seq, cells, ln, pre


def cut_pred(i, st, body):
    """cut immediately before the first top-level If/Return that follows the merge loop"""
    import ast
    wi = [k for k, s in enumerate(body) if isinstance(s, ast.While)]
    if len(wi) != 1:
        return False
    after = [k for k in range(wi[0] + 1, len(body)) if isinstance(body[k], (ast.If, ast.Return))]
    return bool(after) and i == after[0]


def run_dist(dt1, dt2, n, m, fname='jaccarddist', swap=False):
    ks = KSession(max_unroll=n + m + 1, loop_bounds={'c_jaccarddist': n + m})
    ks.ip.cuts['c_jaccarddist'] = (cut_pred, ['N', 'M', 'u'])
    A, ac, la, pa = sym_array('a', n, dt1)
    B, bc, lb, pb = sym_array('b', m, dt2)
    fn = ks.lookup('gambit.metric', fname)
    out = ks.call(fn, *((B, A) if swap else (A, B)))
    return ks, out, (A, ac, la, pa), (B, bc, lb, pb)


def arrays_extract(ac, la, bc, lb, dt1, dt2):
    def ex(m):
        n1, n2 = model_int(m, la, True), model_int(m, lb, True)
        s1 = dtype_ctype(dt1).signed
        s2 = dtype_ctype(dt2).signed
        return {'a': [model_int(m, c, s1) for c in ac[:max(n1, 0)]], 'a_dtype': dt1,
                'b': [model_int(m, c, s2) for c in bc[:max(n2, 0)]], 'b_dtype': dt2}
    return ex


def cutvars(ks):
    d = {}
    for fn, nm, fresh, old, g in ks.ip.cut_defs:
        d.setdefault(nm, []).append((fresh, old, g))
    return d


def spec_value_wrong(out, LA, LB, c, fname='jaccarddist'):
    """Formula: the value returned by `fname` is NOT the value the property text gives for arrays with |a| = LA, |b| = LB and c common
    elements (distance = exact quotient rounded once to float32; index = 1 - distance in float32 or double arithmetic)."""
    ret = out.ret
    if not (isinstance(ret, CVal) and ret.ctype.kind == 'float'):
        return True
    r64 = ret.z3() if ret.ctype.bits == 64 else z3.fpFPToFP(RNE, ret.z3(), z3.Float64())
    d = J.dist_fp(LA, LB, LA + LB - c)
    d64 = z3.fpFPToFP(RNE, d, z3.Float64())
    if fname == 'jaccarddist':
        return lor(out.raised, z3.Not(z3.fpEQ(r64, d64)))
    s32 = z3.fpFPToFP(RNE, z3.fpSub(RNE, z3.FPVal(1.0, J.F32), d), z3.Float64())
    s64 = z3.fpSub(RNE, z3.FPVal(1.0, z3.Float64()), d64)
    return lor(out.raised, z3.Not(z3.Or(z3.fpEQ(r64, s32), z3.fpEQ(r64, s64))))


def cut_instances(ks):
    """[(N, M, u, guard)] for every place/alternative at which the kernel's merge loop was left (definitions at the cut)."""
    cv = cutvars(ks)
    if not cv:
        return []
    if set(cv) != {'N', 'M', 'u'} or len({len(v) for v in cv.values()}) != 1:
        raise CannotEncode(f'cut variables {list(cv)}')
    return [(Nd.z3(), Md.z3(), ud.z3(), gi) for (Nf, Nd, gi), (Mf, Md, _), (uf, ud, _) in zip(cv['N'], cv['M'], cv['u'])]


def ob_merge(dt1, dt2, n, m, second=None, fname='jaccarddist'):
    """Stage 1 (integers): at the cut after the merge loop, N = |a|, M = |b|, u = N + M - #common; every read in
    bounds; loop terminates within n+m iterations; no exception escapes."""
    ks, out, (A, ac, la, pa), (B, bc, lb, pb) = run_dist(dt1, dt2, n, m, fname)
    c = J.match_count(ac, la, bc, lb)
    LA, LB = z3.SignExt(32, la), z3.SignExt(32, lb)
    # the kernel may be entered from several call sites / alternatives (e.g. after a conditional cast): every instance,
    # under its own guard, must see (N, M, u) = (|a|, |b|, |a or b|) of the caller's arrays
    inst = cut_instances(ks)
    inst_wrong = [land(gi, lor(N != LA, M != LB, u != LA + LB - c)) for N, M, u, gi in inst]
    g = lor(*[gi for _, _, _, gi in inst])
    defs_wrong = lor(*inst_wrong)
    # paths on which the kernel is not reached at all (an early return in the Python layer): there the returned value
    # itself must be the value the property gives for the two arrays
    not_reached = lnot(g) if g is not True else False
    early_wrong = False if not_reached is False else spec_value_wrong(out, LA, LB, c, fname)
    viol = lor(defs_wrong, land(not_reached, early_wrong))
    pre = pa + pb
    label = 'merge' if fname == 'jaccarddist' else f'merge[{fname}]'
    return decide(f'{label} {dt1}x{dt2} n<={n} m<={m}', pre, viol, ks, arrays_extract(ac, la, bc, lb, dt1, dt2), TO, second=second, unwind_is_violation=True,
                  reach_goals=[('both-nonempty-with-common', z3.And(la == n, lb == m, c >= 1) if n and m else True),
                               ('last-elements-equal', z3.And(la == n, lb == m, J.zext64(ac[n - 1]) == J.zext64(bc[m - 1])) if n and m else True)],
                  bounds={'n': n, 'm': m, 'dtypes': [dt1, dt2], 'function': fname})


def ob_float(dt1, dt2, fname='jaccarddist', second=None, to=90):
    """Ladder: the full claim (N+M < 2^24) first; if the solver does not finish, smaller widths, reported as such."""
    last = None
    for bits in (24, 16, 10):
        r = ob_float_bits(dt1, dt2, fname, second, bits, to)
        r['bounds']['N+M'] = f'< 2^{bits}'
        if last is not None:
            r['degraded'] = f'2^{last["bits"]} rung undecided ({last["error"]}); claim reduced to N+M < 2^{bits}'
            r['name'] += f' [reduced to 2^{bits}]'
        if r['status'] != INCONCLUSIVE or 'solver' not in str(r.get('error', '')):
            return r
        last = {'bits': bits, 'error': r.get('error')}
    return r


def ob_float_bits(dt1, dt2, fname, second, bits, to):
    """Stage 2 (float): for every 0 <= N,M, max(N,M) <= u <= N+M < 2^24 the returned value is bit-identical to the
    spec (exact quotient rounded once); operand conversions are exact; no exception; result in [0,1]."""
    ks, out, _, _ = run_dist(dt1, dt2, 1, 1, fname)
    cv = cutvars(ks)
    N, M, u = cv['N'][0][0].z3(), cv['M'][0][0].z3(), cv['u'][0][0].z3()
    pre = [N >= 0, M >= 0, u >= N, u >= M, u <= N + M, N + M < (1 << bits)]
    if not isinstance(out.ret, CVal) or out.ret.ctype.kind != 'float':
        raise CannotEncode(f'{fname} returned {out.ret!r}')
    R = out.ret.z3()
    d = J.dist_fp(N, M, u)
    num = 2 * u - N - M
    exact = z3.And(z3.fpToSBV(z3.RTZ(), z3.fpSignedToFP(RNE, num, J.F32), z3.BitVecSort(64)) == num,
                   z3.fpToSBV(z3.RTZ(), z3.fpSignedToFP(RNE, u, J.F32), z3.BitVecSort(64)) == u)
    # bit identity: SMT-LIB "=" on floats (identical bit patterns up to NaN payload) and not NaN
    same = lambda x, y: z3.And(x == y, z3.Not(z3.fpIsNaN(x)))
    if fname == 'jaccarddist':
        spec_ok = same(R, d) if R.sort() == J.F32 else False
    else:
        # index = 1 - d: float32 subtraction widened, or double subtraction of the widened distance
        s32 = z3.fpSub(RNE, z3.FPVal(1.0, J.F32), d)
        if R.sort() == J.F32:
            spec_ok = same(R, s32)
        else:
            s64 = z3.fpSub(RNE, z3.FPVal(1.0, z3.Float64()), z3.fpFPToFP(RNE, d, z3.Float64()))
            spec_ok = z3.Or(same(R, z3.fpFPToFP(RNE, s32, z3.Float64())), same(R, s64))
    # the only guards between the cut and the return are on N, M, u, so `raised` is a formula over them
    viol = lor(out.raised, lnot(spec_ok), z3.Not(exact))
    ex = lambda m: {'N': model_int(m, N, True), 'M': model_int(m, M, True), 'u': model_int(m, u, True)}
    # side obligations of this session concern the merge loop at n=m=1 and are covered by ob_merge; only the violation matters here
    return decide(f'float {fname} {dt1}x{dt2}', pre, viol, None, ex, to, second=second,
                  reach_goals=[('u=0', u == 0), ('u>0, inexact quotient', z3.And(u == 3, N == 2, M == 2))],
                  bounds={'dtypes': [dt1, dt2]}) | {'encoded': ks.encoded}


def ob_reject(dtype):
    """_cast_sigs_array: every dtype other than the six accepted ones raises ValueError (concrete evaluation of the
    translated source over a pool of dtypes); accepted signed dtypes are reinterpreted, not copied."""
    ks = KSession()
    fn = ks.lookup('gambit.metric', '_cast_sigs_array')
    ct_ok = dtype in DTYPES
    if ct_ok:
        A, ac, la, pa = sym_array('a', 2, dtype)
        out = ks.call(fn, A)
        good = isinstance(out.ret, SymSeq) and out.ret.cells is A.cells and not out.ret.elem.signed and out.ret.elem.bits == A.elem.bits
        viol = lor(out.raised, not good)
        return decide(f'cast {dtype}', pa, viol, ks, None, 60, bounds={'dtype': dtype})
    arr = SymSeq([0, 1], BASE_CTYPES['uint8_t'] if dtype == 'u1' else BASE_CTYPES['int8_t'] if dtype == 'i1' else C_FLOAT if dtype == 'f4' else C_DOUBLE,
                 'ndarray', dtype=np.dtype(dtype).str)
    out = ks.call(fn, arr)
    viol = lnot(out.raises('ValueError'))
    return decide(f'cast-reject {dtype}', [], viol, ks, None, 60, bounds={'dtype': dtype})


# ------------------------------------------------------------------------------------------------ replay

def real_dist(a, dt1, b, dt2, fname='jaccarddist'):
    sync, why = cybin.in_sync('metric')
    A, B = np.array(a, dtype=dt1), np.array(b, dtype=dt2)
    if sync:
        import gambit.metric as gm
        return getattr(gm, fname)(A, B), 'gambit.metric (compiled extension in sync with metric.pyx)'
    ks = KSession(max_unroll=len(a) + len(b) + 2, loop_bounds={'c_jaccarddist': len(a) + len(b) + 1})
    sa = SymSeq([int(x) for x in A.view(f'u{A.itemsize}')] if A.dtype.kind == 'i' else [int(x) for x in A], dtype_ctype(dt1), 'ndarray', dtype=A.dtype.str)
    sa.cells = [dtype_ctype(dt1).wrap(int(x)) for x in A]
    sb = SymSeq([dtype_ctype(dt2).wrap(int(x)) for x in B], dtype_ctype(dt2), 'ndarray', dtype=B.dtype.str)
    out = ks.call(ks.lookup('gambit.metric', fname), sa, sb)
    if out.raised is True:
        raise RuntimeError(f'raised {out.code}')
    return out.ret.term, f'concrete evaluation of metric.py/metric.pyx by engine K (binary stale: {why})'


def replay_arrays(cex, unwind=False, fname='jaccarddist'):
    a, b = cex['a'], cex['b']
    if unwind:
        return replay_termination(cex)
    got, how = real_dist(a, cex['a_dtype'], b, cex['b_dtype'], fname)
    want = J.py_dist(a, b)
    if fname == 'jaccard':
        bad = float(got) not in (float(np.float32(1) - want), 1.0 - float(want))
        return bad, {'how': how, 'function': 'jaccard', 'got': repr(got), 'want': f'1 - {want!r}'}
    bad = np.float32(got).tobytes() != np.float32(want).tobytes()
    return bad, {'how': how, 'got': repr(got), 'want': repr(want)}


def replay_termination(cex):
    """The merge loop needs more than n+m iterations: run the real function under a time limit / 10x bound."""
    import subprocess, sys, json
    a, b = cex['a'], cex['b']
    sync, why = cybin.in_sync('metric')
    if sync:
        code = ('import numpy as np, gambit.metric as gm, sys, json; d=json.loads(sys.argv[1]); '
                'print(gm.jaccarddist(np.array(d["a"],dtype=d["a_dtype"]), np.array(d["b"],dtype=d["b_dtype"])))')
        try:
            subprocess.run([sys.executable, '-c', code, json.dumps(cex)], timeout=20, capture_output=True, env=dict(os.environ))
            return False, {'how': 'compiled extension, 20 s limit', 'terminated': True}
        except subprocess.TimeoutExpired:
            return True, {'how': 'compiled extension did not return within 20 s', 'terminated': False}
    bound = 10 * (len(a) + len(b)) + 10
    ks = KSession(max_unroll=bound + 1, loop_bounds={'c_jaccarddist': bound})
    sa = SymSeq([dtype_ctype(cex['a_dtype']).wrap(int(x)) for x in a], dtype_ctype(cex['a_dtype']), 'ndarray', dtype=np.dtype(cex['a_dtype']).str)
    sb = SymSeq([dtype_ctype(cex['b_dtype']).wrap(int(x)) for x in b], dtype_ctype(cex['b_dtype']), 'ndarray', dtype=np.dtype(cex['b_dtype']).str)
    ks.call(ks.lookup('gambit.metric', 'jaccarddist'), sa, sb)
    stuck = any(k == 'unwind' and v is True for k, d, v in ks.side())
    return stuck, {'how': f'concrete evaluation by engine K (binary stale: {why}): merge loop still running after {bound} iterations' if stuck else 'terminated'}


def replay_sizes(cex, fname):
    N, M, u = cex['N'], cex['M'], cex['u']
    c = N + M - u
    a = list(range(N))
    b = list(range(N - c, N - c + M))
    got, how = real_dist(a, 'u4', b, 'u4', fname)
    want = J.py_dist(a, b)
    if fname == 'jaccard':
        ok = float(got) in (float(np.float32(1) - want), 1.0 - float(want))
    else:
        ok = np.float32(got).tobytes() == np.float32(want).tobytes()
    return (not ok), {'how': how, 'got': repr(got), 'want_dist': repr(want), 'arrays': f'range({N}) vs range({N - c},{N - c + M})'}


def validate_translator(run):
    import random
    rnd = random.Random(int(os.environ.get('VERIF_SEED', '0') or 0) + 2)
    sync, why = cybin.in_sync('metric')
    mism = []
    n = 0
    cases = [([], []), ([1], []), ([], [5]), ([1, 2, 3], [1, 2, 3]), ([1, 2, 3], [4, 5, 6]), ([0, 65535], [65535]), ([1, 5, 9], [0, 5, 10, 11])]
    for _ in range(25):
        cases.append((sorted(rnd.sample(range(40), rnd.randint(0, 8))), sorted(rnd.sample(range(40), rnd.randint(0, 8)))))
    for a, b in cases:
        for dt1, dt2 in (('u2', 'u8'), ('i4', 'u2'), ('u8', 'u8'), ('i8', 'i2')):
            ks = KSession(max_unroll=len(a) + len(b) + 2, loop_bounds={'c_jaccarddist': len(a) + len(b) + 1})
            sa = SymSeq(list(a), dtype_ctype(dt1), 'ndarray', dtype=np.dtype(dt1).str)
            sb = SymSeq(list(b), dtype_ctype(dt2), 'ndarray', dtype=np.dtype(dt2).str)
            out = ks.call(ks.lookup('gambit.metric', 'jaccarddist'), sa, sb)
            got = out.ret.term if isinstance(out.ret, CVal) else None
            want = J.py_dist(a, b)
            n += 1
            if got is None or np.float32(got).tobytes() != want.tobytes():
                mism.append(('K-vs-spec', a, b, dt1, dt2, repr(got), repr(want)))
            if sync:
                import gambit.metric as gm
                real = gm.jaccarddist(np.array(a, dtype=dt1), np.array(b, dtype=dt2))
                if got is None or np.float32(real).tobytes() != np.float32(got).tobytes():
                    mism.append(('K-vs-compiled', a, b, dt1, dt2, repr(got), repr(real)))
    run.extra['translator_validation'] = {'vectors': n, 'compiled_in_sync': sync, 'sync_detail': why, 'mismatches': [str(x) for x in mism[:5]]}
    return mism


def main(tier):
    run = Run(PID, tier)
    try:
        mism = validate_translator(run)
    except CannotEncode as e:
        # the current sources use something engine K cannot encode: the K obligations below will say so one by one; whatever other
        # conditions the check has still run
        mism = [('translator validation not possible', str(e))]
    if mism:
        run.inconclusive.append({'name': 'translator-validation', 'status': INCONCLUSIVE, 'error': str(mism[:3])})
    second = 'cvc5' if tier == 'thorough' else None
    specs = []
    U = ['u2', 'u4', 'u8']
    if tier == 'quick':
        for d1, d2 in itertools.product(U, U):
            specs.append(('props.C02', 'ob_merge', dict(dt1=d1, dt2=d2, n=4, m=4)))
        for d1, d2 in itertools.product(DTYPES, DTYPES):
            if d1[0] == 'i' or d2[0] == 'i':
                specs.append(('props.C02', 'ob_merge', dict(dt1=d1, dt2=d2, n=2, m=3)))
    else:
        for d1, d2 in itertools.product(DTYPES, DTYPES):
            specs.append(('props.C02', 'ob_merge', dict(dt1=d1, dt2=d2, n=3, m=3, second=second)))
        for d1, d2 in itertools.product(U, U):
            big = (d1, d2) in (('u8', 'u8'), ('u2', 'u8'), ('u8', 'u2'))
            specs.append(('props.C02', 'ob_merge', dict(dt1=d1, dt2=d2, n=5 if big else 4, m=5 if big else 4, second=second)))
    # the index wrapper jaccard(): same integer-stage claim (and any shortcut it takes must return 1 - distance)
    for d1, d2 in (('u2', 'u2'), ('u8', 'u4'), ('i4', 'u8')) + ((('u4', 'u2'), ('u8', 'u8'), ('i2', 'i8')) if tier == 'thorough' else ()):
        specs.append(('props.C02', 'ob_merge', dict(dt1=d1, dt2=d2, n=3, m=3, second=second, fname='jaccard')))
    for fname in ('jaccarddist', 'jaccard'):
        specs.append(('props.C02', 'ob_float', dict(dt1='u8', dt2='u8', fname=fname, second=second)))
    specs.append(('props.C02', 'ob_float', dict(dt1='u2', dt2='i4', fname='jaccarddist', second=second)))
    for dt in DTYPES + ['u1', 'i1', 'f4', 'f8']:
        specs.append(('props.C02', 'ob_reject', dict(dtype=dt)))
    specs.sort(key=lambda s: -(s[2].get('n', 0) * s[2].get('m', 0)))
    results = run_pool(specs, budget_s=2400 if tier == 'thorough' else 500)
    run.add_results(results, rung=tier)
    for r in results:
        if r['status'] == VIOLATED:
            cex = r.get('cex') or {}
            name = r['name']
            if 'a' in cex:
                rep, detail = replay_arrays(cex, unwind=str(r.get('cex_kind', '')).startswith('unwind'), fname=r['spec'][2].get('fname', 'jaccarddist'))
            elif 'N' in cex:
                rep, detail = replay_sizes(cex, r['spec'][2].get('fname', 'jaccarddist'))
            else:
                rep, detail = False, {'how': 'no concrete input in counterexample'}
            rec = {'obligation': name, 'inputs': cex, 'cex_kind': r.get('cex_kind'), 'replay': detail, 'spec': r['spec']}
            if rep:
                run.report_violation(f'metric/{name.split()[0]}', f'{name}: {cex} -> {detail}', rec)
            else:
                r['status'] = INCONCLUSIVE
                r['error'] = f'counterexample did not reproduce on the real code: {rec}'
                run.inconclusive.append(r)
    from vlib import xprop
    xprop.run_jobs(run, [dict(path='/verif/xh/h_c02.py', fname='_c02_unbalanced', params={}, timeout=300, self_reach=True, unblock=['open'],
                              label='beyond the symbolic length bound (pooled): 0-2 elements against 17 / 40 / 100, all 36 dtype pairs, both orders',
                              bounds={'lengths': '0, 1, 2 against 17, 40, 100', 'values': 'consecutive runs ending at the top of the common range of the two types, at 2^53 + 130, and at 150',
                                      'overlap': 'none / first / last / middle / both ends', 'dtype pairs': 'all 36, both argument orders', 'functions': 'jaccarddist and jaccard', 'kind': 'solver-enumerated pool, real kernels run natively'}),
                         dict(path='/verif/xh/h_c02.py', fname='_c02_history', params={}, timeout=300, self_reach=True, unblock=['open'],
                              label='context-freeness (pooled): two buffers allocated once and refilled in place five times, either function called first, all 36 dtype pairs',
                              bounds={'buffer lengths': '6v9, 1v1, 3v3, 9v2', 'fills': 'nested, disjoint, nested at the top of the common range, partial overlap, first contents again',
                                      'dtype pairs': 'all 36', 'functions': 'jaccarddist and jaccard in both call orders, nothing else called in between', 'kind': 'solver-enumerated pool, real kernels run natively'})],
                   rung='X: pooled unbalanced arrays on the real functions')
    run.bounds = {'array lengths': 'n,m <= 3 (quick) / <= 5 for (u8,u8),(u2,u8),(u8,u2), <= 4 other unsigned pairs, <= 3 all 36 pairs (thorough)',
                  'elements': 'every value of the dtype (strictly increasing, non-negative)', 'float stage': 'every N,M,u with N+M < 2^24'}
    run.outside = ['arrays longer than the bounds (apart from the pooled unbalanced pairs of the X condition)', 'sets with 2^24 or more elements', 'Cython-generated buffer acquisition / fused dispatch code itself']
    run.assumptions = ['inputs sorted strictly increasing and non-negative (the property\'s precondition)',
                       'assume-guarantee cut after the merge loop: stage 1 proves (N,M,u) = (|a|,|b|,|a|+|b|-#common); stage 2 quantifies over all such triples',
                       'float32 semantics = SMT-LIB FloatingPoint RNE (x86-64 SSE, FLT_EVAL_METHOD 0)']
    return run.finish(
        rule='one obligation per (dtype pair, length bound) for the merge loop, per entry point for the float stage, per dtype for the cast; '
             'non-trivial = discharged with satisfiable reachability twins (arrays sharing elements, last elements equal, u=0 and inexact quotients)',
        explanation='Bounded model checking of metric.pyx (c_jaccarddist, jaccard, jaccarddist) and gambit.metric (jaccard, jaccarddist, _cast_sigs_array).')
