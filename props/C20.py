"""C20 - signature collections index like NumPy sequences and compare by content.
Engine K: index normalisation of AdvancedIndexingMixin (incl. numpy dtype wrap) for collection lengths up to 2^31.
Engine X: dispatch / slices / masks / list semantics / equality on the real containers (xh/h_c20.py)."""
import os

os.environ.setdefault('KBMC_PYINT_BITS', '72')      # python ints wide enough for every 64-bit index value plus the length

import z3
import numpy as np

from vlib.common import Run, run_pool, HOLDS, VIOLATED, INCONCLUSIVE
from vlib import xprop

PID = 'C20'
TO = 300
DTYPES = ['i1', 'i2', 'i4', 'i8', 'u1', 'u2', 'u4', 'u8']
MOD = 'gambit.util.indexing'
WIDE = 80


def _mixin_instance(ks, n):
    from kbmc import interp as I
    from kbmc.sym import SInt
    cls = ks.lookup(MOD, 'AdvancedIndexingMixin')
    inst = I.Instance(cls)
    got = {}

    def getitem_int_array(ip, index):
        got['array'] = index
        got['array_guard'] = ip.active()
        return 'SUBSEQUENCE'

    def getitem_int(ip, i):
        got['int'] = i
        got['int_guard'] = ip.active()
        return 'ELEMENT'
    inst.stubs = {'__len__': lambda ip: n, '_getitem_int_array': getitem_int_array, '_getitem_int': getitem_int}
    return inst, got


def ob_int_array(dtype, L, second=None):
    """index array of L symbolic entries of `dtype`, collection length n symbolic in [0, 2^31): list semantics or IndexError;
    the caller's array is left unmodified."""
    from kbmc.harness import KSession, decide, model_int, lor, land, lnot
    from kbmc.sym import SInt, CVal, SymSeq, PyChoice, UNSET, is_sym
    from kbmc.models import dtype_ctype, to_wide
    from kbmc import interp as I
    ks = KSession()
    nterm = z3.BitVec('n', 72)
    n = SInt(nterm)
    pre = [nterm >= 0, nterm < (1 << 31)]
    inst, got = _mixin_instance(ks, n)
    ct = dtype_ctype(dtype)
    cells0 = [z3.BitVec(f'e_{k}', ct.bits) for k in range(L)]
    index = SymSeq(list(cells0), ct, 'ndarray', name='index', dtype=np.dtype(dtype).str)
    gi = I.BoundMethod(inst, inst.cls.find_method(ks.ip, '__getitem__'))
    out = ks.call(gi, index)
    N = z3.SignExt(WIDE - 72, nterm)
    es = [(z3.SignExt(WIDE - ct.bits, c) if ct.signed else z3.ZeroExt(WIDE - ct.bits, c)) for c in cells0]
    oks = [z3.And(-N <= e, e < N) for e in es]
    exp = [z3.If(e < 0, e + N, e) for e in es]
    allok = z3.And(*oks)
    wrong = []
    if 'array' not in got:
        wrong.append(allok)
    else:
        reached = got['array_guard']
        wrong.append(land(allok, lnot(reached)))
        for g, seq in PyChoice.of(got['array']):
            if not isinstance(seq, SymSeq) or seq.plain_cells() is None or len(seq.plain_cells()) != L:
                wrong.append(land(g, reached))
                continue
            for k, c in enumerate(seq.plain_cells()):
                wrong.append(land(g, reached, to_wide(CVal(c, seq.elem), WIDE) != exp[k]))
    modified = lor(*[(c if is_sym(c) else z3.BitVecVal(c, ct.bits)) != c0 for c, c0 in zip(index.cells, cells0)])
    viol = lor(land(allok, lor(out.raised, out.ret != 'SUBSEQUENCE' if not isinstance(out.ret, PyChoice) else False)),
               land(z3.Not(allok), lnot(out.raises('IndexError'))),
               land(allok, lor(*wrong)), modified)
    signed = ct.signed
    ex = lambda m: {'kind': 'int_array', 'dtype': dtype, 'index': [model_int(m, c, signed) for c in cells0], 'len': model_int(m, nterm)}
    reach = [('all-in-bounds', allok), ('some-out-of-bounds', z3.Not(allok))]
    if ct.signed:
        reach.append(('negative-entry-in-bounds', z3.And(allok, es[0] < 0)))
    res = decide(f'int-array dtype={dtype} entries={L}', pre, viol, ks, ex, TO, reach_goals=reach, second=second,
                 bounds={'dtype': dtype, 'entries': L, 'collection length': '0 <= n < 2^31', 'values': 'the whole range of the dtype'})
    if res['status'] == VIOLATED:
        # prefer a counterexample with a collection small enough to build for the replay
        from kbmc import smt
        for cap in (300, 70000, 3000000):
            r = smt.solve(smt.Query('small', pre + [nterm <= cap], viol), 60)
            if r['result'] == 'sat':
                res['cex'] = ex(r['model'])
                res['queries'].append({'q': f'replay steering: n <= {cap}', 'result': 'sat', 'time_s': r['time_s']})
                break
    return res


def ob_scalar(dtype, second=None):
    """single integer index: python int (dtype=None) or numpy scalar of `dtype`."""
    from kbmc.harness import KSession, decide, model_int, lor, land, lnot
    from kbmc.sym import SInt, CVal, PyChoice
    from kbmc.models import dtype_ctype, to_wide
    from kbmc import interp as I
    ks = KSession()
    nterm = z3.BitVec('n', 72)
    pre = [nterm >= 0, nterm < (1 << 31)]
    inst, got = _mixin_instance(ks, SInt(nterm))
    if dtype is None:
        it = z3.BitVec('i', 72)
        idx = SInt(it)
        pre += [it >= -(1 << 66), it <= (1 << 66)]
        e = z3.SignExt(WIDE - 72, it)
        signed = True
    else:
        ct = dtype_ctype(dtype)
        it = z3.BitVec('i', ct.bits)
        idx = CVal(it, ct)
        e = z3.SignExt(WIDE - ct.bits, it) if ct.signed else z3.ZeroExt(WIDE - ct.bits, it)
        signed = ct.signed
    gi = I.BoundMethod(inst, inst.cls.find_method(ks.ip, '__getitem__'))
    out = ks.call(gi, idx)
    N = z3.SignExt(WIDE - 72, nterm)
    ok = z3.And(-N <= e, e < N)
    exp = z3.If(e < 0, e + N, e)
    if 'int' not in got:
        wrong = ok
    else:
        wrong = land(ok, lor(lnot(got['int_guard']), to_wide(got['int'], WIDE) != exp))
    viol = lor(land(ok, out.raised), land(z3.Not(ok), lnot(out.raises('IndexError'))), wrong)
    ex = lambda m: {'kind': 'scalar', 'dtype': dtype, 'index': model_int(m, it, signed), 'len': model_int(m, nterm)}
    return decide(f'scalar index dtype={dtype or "python int"}', pre, viol, ks, ex, TO, second=second,
                  reach_goals=[('in-bounds-negative', z3.And(ok, e < 0)) if signed else ('in-bounds', ok), ('out-of-bounds', z3.Not(ok))],
                  bounds={'dtype': dtype or 'int', 'collection length': '0 <= n < 2^31'})


# ------------------------------------------------------------------------------------------------ replay

def replay(cex):
    """Real SignatureList / SignatureArray of the given length, indexed with the counterexample."""
    from gambit.sigs.base import SignatureList, SignatureArray
    from gambit.kmers import KmerSpec
    n = cex['len']
    if n > 3_000_000:
        return False, {'how': f'collection of {n} signatures not built for replay'}
    ks = KmerSpec(8, 'AT')
    sigs = [np.array([j % 65536], dtype='u2') for j in range(n)]
    bad = []
    for cls in (SignatureList, SignatureArray):
        coll = cls(sigs, ks) if n else cls([], ks, dtype=np.dtype('u2'))
        if cex['kind'] == 'int_array':
            idx = np.array(cex['index'], dtype=cex['dtype'])
            before = idx.copy()
            want = None if not all(-n <= e < n for e in cex['index']) else [e % n for e in cex['index']]
        else:
            idx = cex['index'] if cex['dtype'] is None else np.dtype(cex['dtype']).type(cex['index'])
            before = None
            want = None if not (-n <= cex['index'] < n) else cex['index'] % n
        try:
            r = coll[idx]
            if cex['kind'] == 'int_array':
                got = [int(r[k][0]) for k in range(len(r))]
                wantv = None if want is None else [w % 65536 for w in want]
            else:
                got, wantv = int(r[0]), (None if want is None else want % 65536)
            if want is None:
                bad.append((cls.__name__, 'no IndexError', got))
            elif got != wantv:
                bad.append((cls.__name__, 'selected', got, 'expected', wantv))
        except IndexError:
            if want is not None:
                bad.append((cls.__name__, 'IndexError', 'expected', want))
        except Exception as e:   # noqa
            bad.append((cls.__name__, type(e).__name__, str(e)[:80]))
        if before is not None and not np.array_equal(before, idx):
            bad.append((cls.__name__, 'caller array modified', idx.tolist()))
    return bool(bad), {'how': 'real SignatureList and SignatureArray', 'mismatches': bad}


def main(tier):
    run = Run(PID, tier)
    second = 'cvc5' if tier == 'thorough' else None
    specs = []
    for dt in DTYPES:
        for L in ((1, 2) if tier == 'quick' else (1, 2, 3)):
            specs.append(('props.C20', 'ob_int_array', dict(dtype=dt, L=L, second=second)))
        specs.append(('props.C20', 'ob_scalar', dict(dtype=dt, second=second)))
    specs.append(('props.C20', 'ob_scalar', dict(dtype=None, second=second)))
    results = run_pool(specs, budget_s=1200)
    run.add_results(results, rung='K: index normalisation')
    for r in results:
        if r['status'] == VIOLATED:
            cex = r.get('cex') or {}
            rep, detail = replay(cex) if cex else (False, {})
            rec = {'obligation': r['name'], 'inputs': cex, 'cex_kind': r.get('cex_kind'), 'replay': detail, 'spec': r['spec']}
            if rep:
                key = 'indexing.py/__getitem__/int-array'
                if cex.get('kind') == 'int_array' and cex['dtype'] in ('i1', 'i2', 'i4') and any(e < 0 for e in cex['index']) and cex['len'] > np.iinfo(cex['dtype']).max:
                    key = 'indexing.py/__getitem__/negative-index-wraps-in-narrow-dtype'
                run.report_violation(key, f'{r["name"]}: {cex} -> {detail}', rec)
            else:
                r['status'] = INCONCLUSIVE
                r['error'] = f'counterexample did not reproduce on the real code: {rec}'
                run.inconclusive.append(r)
    try:
        from props import C20x
        C20x.add_jobs(run, tier)
    except ImportError:
        pass
    xprop.note_sources(run, ['src/gambit/util/indexing.py', 'src/gambit/sigs/base.py'])
    run.bounds = {'K': 'index arrays of 1..2 (quick) / 3 (thorough) entries, all 8 integer dtypes, every value; collection length 0 <= n < 2^31; scalar indices of every dtype and python ints',
                  'X': 'see obligations'}
    run.outside = ['index arrays with more entries than the bound (entries are processed independently)', 'collections larger than 4 in the X part']
    run.assumptions = ['numpy model: element-wise comparison with a scalar, ndarray.copy/astype, np.add(a, n, out=a, where=mask) casting to the dtype of out (validated against real numpy on boundary values)',
                       'the abstract methods __len__/_getitem_int/_getitem_int_array are recording stubs']
    return run.finish(
        rule='K: one obligation per (index dtype, entry count) and per scalar index type, quantifying over every entry value and every collection length below 2^31; '
             'X: one CrossHair condition per container and index kind; non-trivial = discharged with satisfiable in-bounds-negative and out-of-bounds witnesses',
        explanation='Bounded model checking of AdvancedIndexingMixin.__getitem__/_check_index with a bit-precise numpy model; CrossHair on the real containers.')
