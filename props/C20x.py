"""Engine-X part of C20 (real containers)."""
from vlib import xprop

H = '/verif/xh/h_c20.py'


def add_jobs(run, tier):
    jobs = []
    n = 4
    for kind in ('SignatureArray', 'SignatureList', 'AnnotatedSignatures', 'HDF5Signatures'):
        b = {'container': kind, 'collection length': n}
        jobs.append(dict(path=H, fname='_c20_int', params={'n': n, 'kind': kind}, timeout=120, self_reach=True, label=f'{kind}: integer index',
                         bounds=dict(b, index=f'every int in [-{n + 2}, {n + 2}], python int and numpy scalar')))
        jobs.append(dict(path=H, fname='_c20_slice', params={'n': n, 'kind': kind}, timeout=400, self_reach=True, label=f'{kind}: slice',
                         bounds=dict(b, slice=f'start, stop, step each None or in [-{n + 2}, {n + 2}] (step 0 included: must raise)')))
        ml = 2 if tier == 'quick' else 3
        jobs.append(dict(path=H, fname='_c20_list', params={'n': n, 'kind': kind, 'maxlen': ml}, timeout=200 if ml == 2 else 1200, self_reach=True, label=f'{kind}: index list/array',
                         bounds=dict(b, entries=f'0..{ml} entries in [-{n + 2}, {n + 2}]', forms='list, tuple, intp array, int8 array')))
        if ml == 2:
            jobs.append(dict(path=H, fname='_c20_list3', params={'n': n, 'kind': kind}, timeout=300, self_reach=True, label=f'{kind}: three valid indices',
                             bounds=dict(b, entries=f'every sequence of 3 indices in [-{n}, {n - 1}]', forms='list, intp array')))
        jobs.append(dict(path=H, fname='_c20_mask', params={'n': n, 'kind': kind}, timeout=200, self_reach=True, label=f'{kind}: boolean mask',
                         bounds=dict(b, mask=f'every mask of length 0..{n + 1} (wrong lengths must raise), list and array')))
    if tier == 'quick':
        jobs.append(dict(path=H, fname='_c20_mutate', params={'n': 3, 'nops': 2}, timeout=400, self_reach=True, label='SignatureList: mutation sequences of 2 operations',
                         bounds={'collection length': 3, 'operations': 'setitem / insert / delitem at every position in [-5, 5], sequences of 2'}))
    else:
        for k0 in range(3):
            jobs.append(dict(path=H, fname='_c20_mutate', params={'n': 2, 'nops': 3, 'k0': k0}, timeout=2400, self_reach=True,
                             label=f'SignatureList: mutation sequences of 3 operations starting with {("setitem", "insert", "delitem")[k0]}',
                             bounds={'collection length': 2, 'operations': 'setitem / insert / delitem at every position in [-4, 4], sequences of 3'}))
    jobs.append(dict(path=H, fname='_c20_eq', params={'n': 3}, timeout=200, self_reach=True, label='equality across container kinds',
                     bounds={'collection length': 3, 'variants': 'each element changed / signature dropped / dtype widened / empty signature appended / different k-mer parameters'}))
    jobs.sort(key=lambda j: -j['timeout'])
    xprop.run_jobs(run, jobs, rung='X: real containers')
    run.stubs.append('X harness: every symbolic index component is case-split to a concrete value by the solver before numpy sees it; the real containers then run natively')
