"""C15 - the genomic distance behaves as a metric.  Engine K on metric.pyx / gambit.metric (shares C02's encoding)."""
import itertools
import z3
import numpy as np

from vlib.common import Run, run_pool, HOLDS, VIOLATED, INCONCLUSIVE
from kbmc.harness import *
from kbmc.sym import *
from specs import jaccard_spec as J
from props import C02

PID = 'C15'
TO = 600
F32, F64 = z3.Float32(), z3.Float64()


_REACHED = {}


def _float_session(fname='jaccarddist'):
    """The float stage quantifies over the kernel's (N, M, u) at the cut.  If the Python layer can return before the kernel
    is reached, the float laws are stated for the paths that do reach it (assumption `reached`); the other paths are covered
    by the integer-stage obligations, which compare the returned value itself with the spec."""
    ks, out, _, _ = C02.run_dist('u8', 'u8', 1, 1, fname)
    cv = C02.cutvars(ks)
    if len(cv.get('N', [])) != 1:
        raise CannotEncode('the float stage expects exactly one kernel call site')
    N, M, u = cv['N'][0][0].z3(), cv['M'][0][0].z3(), cv['u'][0][0].z3()
    g = cv['N'][0][2]
    if not isinstance(out.ret, CVal) or out.ret.ctype.kind != 'float':
        raise CannotEncode('jaccarddist does not return a float term')
    _REACHED[id(N)] = g
    return ks, out, N, M, u, out.ret.z3()


def _pre(N, M, u, bits):
    g = _REACHED.get(id(N), True)
    return [N >= 0, M >= 0, u >= N, u >= M, u <= N + M, N + M < (1 << bits)] + ([] if g is True else [g])


def _ladder(fn, name, **kw):
    last = None
    for bits in (24, 16, 10):
        r = fn(bits=bits, **kw)
        r['bounds'] = dict(r.get('bounds') or {}, **{'N+M': f'< 2^{bits}'})
        if last:
            r['degraded'] = f'2^{last} rung undecided; claim reduced to N+M < 2^{bits}'
            r['name'] += f' [reduced to 2^{bits}]'
        if r['status'] != INCONCLUSIVE or 'solver' not in str(r.get('error', '')):
            return r
        last = bits
    return r


def _ex(N, M, u):
    return lambda m: {'N': model_int(m, N, True), 'M': model_int(m, M, True), 'u': model_int(m, u, True)}


def ob_range_zero_one(bits=24, to=120):
    """0 <= d <= 1;  d == 0 <=> |A xor B| = 0;  d == 1 <=> |A xor B| = |A or B| > 0  (float stage, all N,M,u)."""
    ks, out, N, M, u, R = _float_session()
    num = 2 * u - N - M
    zero, one = z3.FPVal(0.0, R.sort()), z3.FPVal(1.0, R.sort())
    viol = lor(out.raised,
               z3.Not(z3.And(z3.fpLEQ(zero, R), z3.fpLEQ(R, one))), z3.fpIsNaN(R),
               z3.fpEQ(R, zero) != (num == 0),
               z3.fpEQ(R, one) != z3.And(num == u, u > 0),
               z3.And(z3.fpIsZero(R), z3.fpIsNegative(R)))
    return decide('range/zero/one (float stage)', _pre(N, M, u, bits), viol, None, _ex(N, M, u), to,
                  reach_goals=[('d=0', z3.And(u > 0, num == 0)), ('d=1', z3.And(u > 0, num == u)), ('0<d<1', z3.And(num > 0, num < u))]) | {'encoded': ks.encoded}


def ob_symmetry_float(bits=24, to=120):
    """d computed from (N,M,u) is bit-identical to d computed from (M,N,u)."""
    ks, out, N, M, u, R = _float_session()
    N2, M2 = z3.BitVec('N2', 64), z3.BitVec('M2', 64)
    R2 = z3.substitute(R, (N, N2), (M, M2))
    raised2 = z3.substitute(out.raised, (N, N2), (M, M2)) if is_sym(out.raised) else out.raised
    viol = lor(out.raised, raised2, z3.Not(z3.And(R == R2, z3.Not(z3.fpIsNaN(R)))), z3.fpIsNaN(R))
    viol = lor(out.raised, raised2, z3.Not(R == R2))
    return decide('symmetry (float stage)', _pre(N, M, u, bits) + [N2 == M, M2 == N], viol, None, _ex(N, M, u), to, abstract_fp=True,
                  reach_goals=[('N!=M', N != M)]) | {'encoded': ks.encoded}


def ob_decrease(bits=8, to=200):
    """Adding a k-mer absent from both sets to both: (N,M,u) -> (N+1,M+1,u+1); d strictly decreases when d > 0 and stays 0 when d = 0."""
    ks, out, N, M, u, R = _float_session()
    N2, M2, u2 = z3.BitVec('N2', 64), z3.BitVec('M2', 64), z3.BitVec('u2', 64)
    R2 = z3.substitute(R, (N, N2), (M, M2), (u, u2))
    num = 2 * u - N - M
    viol = lor(z3.And(num > 0, z3.Not(z3.fpLT(R2, R))), z3.And(num == 0, z3.Not(z3.And(z3.fpIsZero(R), z3.fpIsZero(R2)))))
    pre = _pre(N, M, u, bits) + [N2 == N + 1, M2 == M + 1, u2 == u + 1, N + M + 2 < (1 << bits)]
    r = decide(f'strict decrease (float stage, N+M < 2^{bits})', pre, viol, None, _ex(N, M, u), to, engines=('cvc5', 'z3'),
               reach_goals=[('d>0', num > 0)]) | {'encoded': ks.encoded}
    r['bounds'] = {'N+M': f'< 2^{bits}'}
    return r


def ob_sets(dt1, dt2, n, m, second=None):
    """Integer stage on the code's own (N,M,u): |A xor B| = 0 <=> equal sets; |A xor B| = |A or B| <=> disjoint;
    and the (a,b) / (b,a) runs reach the same u with N,M swapped (symmetry of the merge loop).  Stated for every place at which
    the kernel is entered, under its guard; on paths that return without entering it the returned value must be the spec distance."""
    ks, out, (A, ac, la, pa), (B, bc, lb, pb) = C02.run_dist(dt1, dt2, n, m)
    inst1 = C02.cut_instances(ks)
    ks.ip.cut_defs.clear()
    fn = ks.lookup('gambit.metric', 'jaccarddist')
    out2 = ks.call(fn, B, A)
    inst2 = C02.cut_instances(ks)
    c = J.match_count(ac, la, bc, lb)
    eq = J.sets_equal(ac, la, bc, lb)
    LA, LB = z3.SignExt(32, la), z3.SignExt(32, lb)
    viols = []
    for N1, M1, u1, g1 in inst1:
        num = 2 * u1 - N1 - M1
        viols.append(land(g1, lor((num == 0) != eq, z3.And(u1 > 0, num == u1) != z3.And(c == 0, la + lb > 0))))
        for N2, M2, u2, g2 in inst2:
            viols.append(land(g1, g2, lor(u1 != u2, N1 != M2, M1 != N2)))
    for o, inst in ((out, inst1), (out2, inst2)):
        g = lor(*[gi for _, _, _, gi in inst])
        if g is not True:
            viols.append(land(lnot(g), C02.spec_value_wrong(o, LA, LB, c)))
    viol = lor(*viols)
    return decide(f'sets {dt1}x{dt2} n<={n} m<={m}', pa + pb, viol, ks, C02.arrays_extract(ac, la, bc, lb, dt1, dt2), TO, second=second,
                  unwind_is_violation=True,
                  reach_goals=[('equal-nonempty', z3.And(eq, la >= min(n, m), la > 0) if n and m else True), ('disjoint', z3.And(c == 0, la == n, lb == m))],
                  bounds={'n': n, 'm': m, 'dtypes': [dt1, dt2]})


def ob_widen(dt_narrow, dt_wide, dt_other, n, m, second=None):
    """Storing a signature in a wider integer type leaves (N,M,u) - hence the distance bits - unchanged."""
    ks = KSession(max_unroll=n + m + 1, loop_bounds={'c_jaccarddist': n + m})
    ks.ip.cuts['c_jaccarddist'] = (C02.cut_pred, ['N', 'M', 'u'])
    A, ac, la, pa = C02.sym_array('a', n, dt_narrow)
    B, bc, lb, pb = C02.sym_array('b', m, dt_other)
    wct = C02.dtype_ctype(dt_wide)
    wide_cells = [z3.ZeroExt(wct.bits - c.size(), c) for c in ac]
    Aw = SymSeq(wide_cells, wct, 'ndarray', 0, SInt(la, ub=n), name='a_wide', dtype=np.dtype(dt_wide).str)
    fn = ks.lookup('gambit.metric', 'jaccarddist')
    o1 = ks.call(fn, A, B)
    inst1 = C02.cut_instances(ks)
    ks.ip.cut_defs.clear()
    o2 = ks.call(fn, Aw, B)
    inst2 = C02.cut_instances(ks)
    c = J.match_count(ac, la, bc, lb)
    LA, LB = z3.SignExt(32, la), z3.SignExt(32, lb)
    viols = [o1.raised, o2.raised]
    for N1, M1, u1, g1 in inst1:
        for N2, M2, u2, g2 in inst2:
            viols.append(land(g1, g2, lor(N1 != N2, M1 != M2, u1 != u2)))
    for o, inst in ((o1, inst1), (o2, inst2)):
        g = lor(*[gi for _, _, _, gi in inst])
        if g is not True:
            viols.append(land(lnot(g), C02.spec_value_wrong(o, LA, LB, c)))
    viol = lor(*viols)
    return decide(f'widen {dt_narrow}->{dt_wide} vs {dt_other} n<={n} m<={m}', pa + pb, viol, ks,
                  C02.arrays_extract(ac, la, bc, lb, dt_narrow, dt_other), TO, second=second, unwind_is_violation=True,
                  reach_goals=[('full', z3.And(la == n, lb == m))], bounds={'n': n, 'm': m})


def ob_triangle(U, second=None):
    """Spec level: for all subsets A,B,C of a universe of U elements, d(A,C) <= d(A,B) + d(B,C) in exact rational
    arithmetic (cross-multiplied); with the rounding lemma this gives slack 3 * 2^-25 < 2^-22 for the float32 values."""
    W = 24
    A, B, C = z3.BitVecs('A B C', U)

    def pop(x):
        return sum([z3.ZeroExt(W - 1, z3.Extract(i, i, x)) for i in range(U)], z3.BitVecVal(0, W))

    def dist(x, y):
        return pop(x ^ y), pop(x | y)
    x, p = dist(A, C)
    y, q = dist(A, B)
    z, r = dist(B, C)
    # d = 0 when the union is empty: replace denominators 0 by 1 (numerators are 0 then)
    p1, q1, r1 = [z3.If(t == 0, z3.BitVecVal(1, W), t) for t in (p, q, r)]
    viol = z3.UGT(x * q1 * r1, y * p1 * r1 + z * p1 * q1)
    ex = lambda m: {'A': model_int(m, A), 'B': model_int(m, B), 'C': model_int(m, C), 'universe': U}
    return decide(f'triangle inequality, universe of {U}', [], viol, None, ex, TO, second=second,
                  reach_goals=[('strict', z3.ULT(x * q1 * r1, y * p1 * r1 + z * p1 * q1)), ('tight', z3.And(x * q1 * r1 == y * p1 * r1 + z * p1 * q1, x != 0))],
                  bounds={'universe': U})


def main(tier):
    run = Run(PID, tier)
    second = 'cvc5' if tier == 'thorough' else None
    specs = [('props.C15', 'lad', dict(which='ob_range_zero_one')), ('props.C15', 'lad', dict(which='ob_symmetry_float')),
             ('props.C15', 'ob_decrease', dict(bits=8 if tier == 'quick' else 10, to=200 if tier == 'quick' else 1500)),
             ('props.C15', 'ob_decrease', dict(bits=24, to=120))]
    U3 = ['u2', 'u4', 'u8']
    nm = 3 if tier == 'quick' else 4
    for d1, d2 in itertools.product(U3, U3):
        specs.append(('props.C15', 'ob_sets', dict(dt1=d1, dt2=d2, n=nm, m=nm, second=second)))
    for nar, wide in (('u2', 'u4'), ('u2', 'u8'), ('u4', 'u8'), ('i2', 'u8'), ('i4', 'i8')):
        for other in (['u8'] if tier == 'quick' else U3):
            specs.append(('props.C15', 'ob_widen', dict(dt_narrow=nar, dt_wide=wide, dt_other=other, n=nm, m=nm, second=second)))
    for U in ([4, 6] if tier == 'quick' else [4, 6, 8]):
        specs.append(('props.C15', 'ob_triangle', dict(U=U, second=second)))
    results = run_pool(specs, budget_s=2400 if tier == 'thorough' else 600)
    run.add_results(results, rung=tier)
    for r in results:
        if r['status'] == VIOLATED:
            cex = r.get('cex') or {}
            name = r['name']
            rep, detail = replay(name, cex)
            rec = {'obligation': name, 'inputs': cex, 'replay': detail, 'spec': r['spec'], 'cex_kind': r.get('cex_kind')}
            if rep:
                key = f'metric/{name.split()[0]}'
                if name.startswith('strict decrease') and detail.get('classification') == 'float32-resolution':
                    key = 'metric/strict-decrease/float32-resolution(union>=2^20)'
                run.report_violation(key, f'{name}: {cex} -> {detail}', rec)
            else:
                r['status'] = INCONCLUSIVE
                r['error'] = f'counterexample did not reproduce on the real code: {rec}'
                run.inconclusive.append(r)
        if r.get('degraded'):
            run.log('NOTE', r['name'], r['degraded'])
    run.bounds = {'float stage': 'every N,M,u with N+M < 2^24 (or the reduced width named in the obligation)',
                  'integer stage': f'arrays of length <= {nm}, all values of the dtype', 'triangle': 'all triples of subsets of a universe of <= 6 (quick) / 8 (thorough) elements'}
    run.outside = ['triangle inequality for universes larger than 8 (a theorem about the Jaccard distance; not proved here)',
                   'arrays longer than the bound (the float stage is length-independent)']
    run.assumptions = ['C02 (code computes (N,M,u) = (|a|,|b|,|a or b|) and returns the correctly rounded quotient) links the spec-level triangle inequality to the code',
                       '"strictly decreases" is read as: strictly when the distance is positive, unchanged (0) when the sets are equal']
    return run.finish(
        rule='one obligation per metric law; float-stage laws quantify over all (N,M,u); integer-stage laws over all arrays within the bound; '
             'non-trivial = discharged with satisfiable reachability twins',
        explanation='Bounded model checking of the translated metric kernel for range, identity, symmetry, width-independence and monotonicity; exact spec-level triangle inequality.')


def float_stage_real(N, M, u):
    """d(A,B), d(B,A), d(A+x,B+x) for sets with |A|=N, |B|=M, |A or B|=u: through gambit.metric on real arrays when the
    compiled kernel is in sync with metric.pyx, otherwise by evaluating the translated return expression at (N,M,u)."""
    from vlib import cybin
    import struct
    sync, why = cybin.in_sync('metric')
    c = N + M - u
    if sync:
        import gambit.metric as gm
        a = np.arange(N, dtype='u4')
        b = np.arange(N - c, N - c + M, dtype='u4')
        top = np.uint32(max(N, N - c + M) + 5)
        return (gm.jaccarddist(a, b), gm.jaccarddist(b, a), gm.jaccarddist(np.append(a, top), np.append(b, top)),
                'gambit.metric.jaccarddist on real arrays (compiled extension in sync with metric.pyx)')
    ks, out, Ns, Ms, us, R = _float_session()

    def ev(n, m, uu):
        v = z3.simplify(z3.fpToIEEEBV(z3.substitute(R, (Ns, z3.BitVecVal(n, 64)), (Ms, z3.BitVecVal(m, 64)), (us, z3.BitVecVal(uu, 64)))))
        return np.float32(struct.unpack('<f', struct.pack('<I', v.as_long()))[0])
    return ev(N, M, u), ev(M, N, u), ev(N + 1, M + 1, u + 1), f'translated return expression of c_jaccarddist evaluated at (N,M,u) (binary stale: {why})'


def lad(which):
    return _ladder(globals()[which], which)


def replay(name, cex):
    from specs.jaccard_spec import py_dist
    if 'a' in cex:
        a, b = cex['a'], cex['b']
        d1, how = C02.real_dist(a, cex['a_dtype'], b, cex['b_dtype'])
        d2, _ = C02.real_dist(b, cex['b_dtype'], a, cex['a_dtype'])
        want = py_dist(a, b)
        bad = np.float32(d1).tobytes() != want.tobytes() or np.float32(d2).tobytes() != want.tobytes()
        if name.startswith('widen'):
            wide = {'u2': 'u8', 'u4': 'u8', 'i2': 'i8', 'i4': 'i8'}.get(cex['a_dtype'], 'u8')
            d3, _ = C02.real_dist(a, wide, b, cex['b_dtype'])
            bad = bad or np.float32(d3).tobytes() != np.float32(d1).tobytes()
        return bad, {'how': how, 'd(a,b)': repr(d1), 'd(b,a)': repr(d2), 'want': repr(want)}
    if 'N' in cex:
        N, M, u = cex['N'], cex['M'], cex['u']
        c = N + M - u
        d, d_sw, d_plus, how = float_stage_real(N, M, u)
        from fractions import Fraction
        want = J.round_fraction_f32(Fraction(2 * u - N - M, u)) if u else np.float32(0)
        bad = (np.float32(d).tobytes() != want.tobytes() or np.float32(d).tobytes() != np.float32(d_sw).tobytes()
               or not (0 <= float(d) <= 1) or (float(d) > 0 and not float(d_plus) < float(d)) or (float(d) == 0 and float(d_plus) != 0))
        only_resolution = (np.float32(d).tobytes() == want.tobytes() == np.float32(d_sw).tobytes() and float(d) > 0
                           and float(d_plus) == float(d) and u >= (1 << 20))
        return bad, {'how': how, 'd': repr(np.float32(d)), 'd_swapped': repr(np.float32(d_sw)), 'd_plus_common': repr(np.float32(d_plus)), 'want': repr(want),
                     'classification': 'float32-resolution' if only_resolution else 'other',
                     'arrays': f'A = range({N}), B = range({N - c},{N - c + M}); then both with one extra common element'}
    return False, {'how': 'spec-level counterexample (no code involved)'}
