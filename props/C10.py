"""C10 - strict classification reports an order-independent consensus of all matches.  Engine X."""
from vlib.common import Run
from vlib import xprop
from xh import gen_c10, taxo

PID = 'C10'


def has_conflict(shape):
    # some node with two children, or two roots
    from collections import Counter
    c = Counter(shape)
    return any(v >= 2 for v in c.values())


def main(tier):
    run = Run(PID, tier)
    jobs = []

    def add_consensus(T, L, shapes, timeout):
        path = gen_c10.make(T, L)
        for shape in shapes:
            jobs.append(dict(path=path, fname='_c10_consensus', params={'shape': shape}, timeout=timeout,
                             twin='_c10_consensus_reach' if (has_conflict(shape) and L >= 2) else None, twin_timeout=60,
                             label=f'consensus T={T} matches={L} shape={shape}',
                             bounds={'taxa': T, 'shape': shape, 'matched taxa': f'every sequence of {L} taxa (any order, repeats)'}))

    def add_strict(T, G, shapes, timeout, patterns, split=False):
        path = gen_c10.make(T, G)
        for shape in shapes:
            for pat in patterns(shape):
                for a0 in (range(T) if split else [None]):
                    params = {'shape': shape, 'thresholds': pat}
                    if a0 is not None:
                        params['a0'] = a0
                    jobs.append(dict(path=path, fname='_c10_strict', params=params, timeout=timeout,
                                     twin='_c10_strict_reach' if (has_conflict(shape) and a0 is None and all(x == 1 for x in pat)) else None, twin_timeout=60,
                                     label=f'strict T={T} G={G} shape={shape} thresholds={pat}' + ('' if a0 is None else f' genome0->taxon{a0}'),
                                     bounds={'taxa': T, 'genomes': G, 'shape': shape, 'thresholds(-1=none)': pat, 'distances': 'below / at / beyond the threshold, all combinations',
                                             'genome->taxon': 'all' if a0 is None else f'genome0 on taxon {a0}, others all'}))
            jobs.append(dict(path=path, fname='_c10_matches', params={'shape': shape}, timeout=min(timeout, 300), self_reach=True,
                             label=f'find_matches T={T} shape={shape}', bounds={'taxa': T, 'shape': shape, 'thresholds': 'symbolic (absent or any order type)'}))

    def pats_quick(shape):
        T = len(shape)
        return [[1] * T]

    def pats_thorough(shape):
        T = len(shape)
        out = [[1] * T, [-1 if p < 0 else 1 for p in shape]]          # all thresholds; roots without threshold
        leafless = [1 if i in shape else -1 for i in range(T)]         # leaves without threshold
        if leafless not in out:
            out.append(leafless)
        return out
    if tier == 'quick':
        for T in (1, 2, 3, 4):
            add_consensus(T, 4, taxo.forests(T), 200)
        add_consensus(5, 4, taxo.forests(5), 400)
        for T in (1, 2, 3, 4):
            add_strict(T, 3, taxo.forests(T), 300, pats_thorough if T <= 3 else pats_quick)
    else:
        for T in (1, 2, 3, 4, 5):
            add_consensus(T, 4, taxo.forests(T), 900)
        add_consensus(6, 3, taxo.forests(6), 900)
        add_consensus(6, 4, [[-1, 0, 1, 2, 1, 0], [-1, 0, 1, 1, 0, 4], [-1, 0, 0, 1, 1, 2], [-1, -1, 0, 0, 1, 2]], 2400)
        for T in (1, 2, 3, 4):
            add_strict(T, 3, taxo.forests(T), 900, pats_thorough)
        add_strict(5, 3, taxo.forests(5), 1800, pats_quick)
        add_strict(4, 4, taxo.forests(4), 2400, pats_quick, split=True)
    jobs.sort(key=lambda j: -j['timeout'])
    xprop.run_jobs(run, jobs, rung=tier, key_of=key_of)
    xprop.note_sources(run, ['src/gambit/classify.py', 'src/gambit/db/models.py'])
    run.bounds = {'quick': 'consensus: all forests <= 5 taxa x every sequence of 4 matched taxa; strict classify: all forests <= 4 taxa x 3 genomes',
                  'thorough': 'consensus: all forests <= 5 taxa x sequences of 4, all 48 six-taxon forests x sequences of 3; strict classify: all forests <= 4 taxa x 3 genomes x 3 threshold patterns, all 20 five-taxon forests x 3 genomes, all four-taxon forests x 4 genomes'}
    run.stubs = ['numpy.argmin -> first minimum']
    run.outside = ['forests / match counts beyond the bounds', 'the text of the warning message (only its presence is checked)',
                   'whether a conflict warning accompanies a failed (no common ancestor) result - the property text is silent there']
    run.assumptions = ['consensus / strict harnesses: the solver enumerates the finite abstraction (which taxa, which of the 3 distance classes) and the real code runs natively on each cell',
                       'strict classify is checked with concrete threshold patterns (matching itself is checked with symbolic thresholds by find_matches here and by C03)',
                       'order independence is decided through an order-free oracle: every order of every multiset of matches must give the oracle\'s answer']
    return run.finish(
        rule='one CrossHair condition per (forest shape, size[, threshold pattern, taxon of genome 0]); consensus conditions quantify over every sequence of matched taxa, strict conditions over '
             'genome placement and distance order types; non-trivial = confirmed with a reachability twin exhibiting a conflict (>= 2 taxa below the consensus)',
        explanation='Symbolic execution (CrossHair/z3) of the real consensus_taxon / find_matches / classify(strict=True) against an order-free transcription of the property text.')


def key_of(job, res, detail):
    if job['fname'] in ('_c10_consensus', '_c10_strict'):
        return 'classify.py/consensus_taxon/descendant-after-conflict'
    return job['fname']
