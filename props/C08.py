"""C08 - query output rows: one per input, in order, correctly labelled, context-free.
Engine K: strip_seq_file_ext / strip_extensions on symbolic file names.  Engine X: the real query callback, get_sequence_files,
query_parse and query with recording stubs."""
import ast
import z3

from vlib.common import Run, run_pool, HOLDS, VIOLATED, INCONCLUSIVE
from vlib import xprop

PID = 'C08'
H = '/verif/xh/h_c08.py'


def ob_label(L, ext, gz, second=None):
    """strip_seq_file_ext(stem + ext + gz) == stem for every stem of L characters (any characters); for ext == '' the stem
    must not itself end in an extension."""
    from kbmc.harness import KSession, decide, sym_bytes, model_bytes, lor, land, lnot
    from kbmc.sym import SymSeq, C_UCHAR
    ks = KSession()
    exts = ks.lookup('gambit.cli.common', 'FASTA_EXTENSIONS')
    gzs = ks.lookup('gambit.cli.common', 'GZIP_EXTENSIONS')
    if ext and ext not in exts:
        raise ValueError(ext)
    f = ks.lookup('gambit.cli.common', 'strip_seq_file_ext')
    stem, cells = sym_bytes('s', L, 'str')
    name = SymSeq(list(cells) + [ord(c) for c in ext + gz], C_UCHAR, 'str')
    o = ks.call(f, name)
    viol = lor(o.raised, lnot(ks.ip.compare(ast.Eq(), o.ret, stem)))
    pre = []
    if not ext:
        for e in list(exts) + list(gzs):
            if len(e) <= L:
                pre.append(z3.Not(z3.And(*[cells[L - len(e) + t] == ord(e[t]) for t in range(len(e))])))
    ex = lambda m: {'stem': model_bytes(m, cells).decode('latin-1'), 'ext': ext, 'gz': gz}
    return decide(f'label stem[{L}]+{ext or "<none>"}+{gz or "<none>"}', pre, viol, ks, ex, 120, second=second,
                  bounds={'stem length': L, 'characters': 'all 256 code points below U+0100', 'extension': ext, 'gzip': gz})


def replay_label(cex):
    from gambit.cli.common import strip_seq_file_ext, get_file_id
    name = cex['stem'] + cex['ext'] + cex['gz']
    got = strip_seq_file_ext(name)
    return got != cex['stem'], {'how': 'real gambit.cli.common.strip_seq_file_ext', 'name': name, 'got': got, 'want': cex['stem']}


def main(tier):
    run = Run(PID, tier)
    second = 'cvc5' if tier == 'thorough' else None
    specs = []
    exts = ['.fasta', '.fna', '.ffn', '.faa', '.frn', '.fa', '']
    for L in range(0, 7 if tier == 'quick' else 10):
        for e in exts:
            for gz in ('', '.gz'):
                specs.append(('props.C08', 'ob_label', dict(L=L, ext=e, gz=gz, second=second)))
    results = run_pool(specs, budget_s=600)
    run.add_results(results, rung='K: label function')
    for r in results:
        if r['status'] == VIOLATED:
            cex = r.get('cex') or {}
            rep, detail = replay_label(cex) if cex else (False, {})
            rec = {'obligation': r['name'], 'inputs': cex, 'replay': detail, 'spec': r['spec']}
            if rep:
                run.report_violation('cli/common.py/strip_seq_file_ext', f'{r["name"]}: {detail}', rec)
            else:
                r['status'] = INCONCLUSIVE
                r['error'] = f'counterexample did not reproduce on the real code: {rec}'
                run.inconclusive.append(r)
    jobs = [
        dict(path=H, fname='_c08_rows', params={}, timeout=400, self_reach=True, label='query callback: rows vs inputs',
             bounds={'batch': '0..3 inputs drawn with repetition from 6 names (sub-directories, .gz, no extension, two different files with the same label; the same file may also be listed twice)', 'order': 'every order',
                     'channel': 'positional / list file (with base dir, blank lines, padding) / signature file'}),
        dict(path=H, fname='_c08_channels', params={}, timeout=100, self_reach=True, label='exactly one input channel', bounds={'channels': 'all 8 combinations'}),
        dict(path=H, fname='_c08_dirs', params={}, timeout=100, self_reach=True, label='label ignores directories', bounds={'directories': 6, 'names': 6}),
    ]
    for ci, cs in enumerate([None, 1, 2, 3, 4, 5, 6, 7, 1000]):
        mx = 2 if tier == 'quick' else 3
        jobs.append(dict(path=H, fname='_c08_context', params={'chunk_i': ci, 'maxn': mx}, timeout=300 if tier == 'quick' else 1200, self_reach=True,
                         label=f'context freedom, nothing stubbed: real query() with reference chunk size {cs if cs is not None else "default"}',
                         bounds={'database': '5 reference genomes in 2 species + genus, signatures stored in another order with an unrelated one in between', 'batch': f'1..{mx} of 5 queries in every order (repeats allowed)',
                                 'chunk size': cs if cs is not None else 'default', 'classification': 'default and strict', 'compared with': 'the same query alone with default parameters (bitwise distances, taxa, closest-genome list)'}))
    xprop.run_jobs(run, jobs, rung='X: rows')
    xprop.note_sources(run, ['src/gambit/cli/common.py', 'src/gambit/cli/query.py', 'src/gambit/query.py'])
    run.bounds = {'K': 'stems of 0..6 (quick) / 9 (thorough) arbitrary characters x 6 FASTA extensions or none x .gz or not', 'X': 'see obligations'}
    run.stubs = ['calc_file_signatures -> tag per file in order (its own order guarantee is C13)', 'jaccarddist_matrix -> row i filled with i', 'get_result_item -> records the row and the input it was given',
                 'load_signatures -> stored ids', 'exporter -> captures the results object', 'context-freedom conditions: nothing stubbed (real query, kernels, SQLite in memory)']
    run.outside = ['-c / progress display / gzip equivalence / real file parsing (I/O, processes)', 'characters beyond U+00FF in file names', 'batches of more than 3 inputs']
    run.assumptions = ['context-freedom is structural: item i is produced by get_result_item from distance row i and input i only, which the recording stub observes']
    return run.finish(
        rule='K: one obligation per (stem length, extension, gzip) over all stems; X: CrossHair conditions over batch composition, order and channel; non-trivial = discharged / confirmed over all cells',
        explanation='SMT on the translated extension-stripping code for symbolic names; CrossHair-driven case split of the real query callback with recording stubs.')
