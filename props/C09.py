"""C09 - the closest-genomes list is the deterministic (distance, reference order) prefix.  Engine X."""
import os
import numpy as np

from vlib.common import Run, HOLDS, VIOLATED, INCONCLUSIVE
from vlib import xprop
from xh import gen_c09, runner

PID = 'C09'


def platform_replay(seed_dists=None):
    """Run the real get_result_item with the real numpy on rows with ties; return the first row on which the
    real output is not the (distance, reference order) prefix / its head differs from closest_match."""
    from xh.taxo import World
    import gambit.query as gq
    from gambit.query import QueryParams, QueryInput

    class DB:
        pass
    rows = []
    if seed_dists:
        base = [float(x) / 8 for x in seed_dists]
        rows.append(base)
        for rep in (2, 3, 5, 9):
            rows.append(base * rep)
    for n in (2, 3, 5, 8, 16, 17, 31, 32, 33, 64, 100):
        rows.append([0.5] * n)
        rows.append([0.25] * (n // 2) + [0.75] * (n - n // 2))
        rows.append(([0.5, 0.25, 0.5, 0.75] * n)[:n])
    for row in rows:
        n = len(row)
        w = World([-1, 0], n)
        w.configure([1.0, 0.1], [True, True], [j % 2 for j in range(n)])
        db = DB()
        db.genomes = w.genomes
        d = np.array(row, dtype=np.float32)
        for N in (range(1, n + 1) if n <= 17 else (1, 2, 3, n // 2, n - 1, n)):
            item = gq.get_result_item(db, QueryParams(report_closest=N), d, QueryInput('q'))
            got = [w.gi(m.genome) for m in item.closest_genomes]
            want = sorted(range(n), key=lambda j: (row[j], j))[:min(N, n)]
            head = w.gi(item.classifier_result.closest_match.genome)
            if got != want or (got and got[0] != head):
                return {'dists_float32': row, 'report_closest': N, 'got_genome_order': got[:12], 'want': want[:12], 'closest_match_genome': head,
                        'numpy': np.__version__}
    return None


def main(tier):
    run = Run(PID, tier)
    jobs = []
    sizes = (1, 2, 3, 4) if tier == 'quick' else (1, 2, 3, 4, 5)        # 6 references did not finish within 40 min per list length
    for g in sizes:
        path = gen_c09.make(g)
        ths = [None] if g <= 3 else [[3, 1], [-1, 2]]
        for th, strict in [(t, None) for t in ths]:
            # the largest sizes are split by list length as well (one condition per length), so that each finishes within its limit
            for nfix in ([None] if g <= 4 else list(range(1, g + 2))):
                prm = {} if th is None else {'th': th}
                if nfix is not None:
                    prm['n'] = nfix
                jobs.append(dict(path=path, fname='_c09_list', params=prm, timeout={1: 60, 2: 60, 3: 240, 4: 300, 5: 900, 6: 2400}[g],
                                 twin='_c09_reach' if g >= 2 and (nfix is None or nfix >= 2) else None, twin_timeout=60 if g <= 4 else 300,
                                 label=f'closest-list references={g}' + ('' if th is None else f' thresholds={th}') + ('' if nfix is None else f' report_closest={nfix}'),
                                 bounds={'references': g, 'distances': 'every order type incl. ties', 'report_closest': f'1..{g + 1}' if nfix is None else nfix, 'unstable sort result': 'every sorting permutation',
                                         'thresholds': 'symbolic (absent or any order type)' if th is None else th, 'classify_strict': False}))
    for g in ((2, 3) if tier == 'quick' else (2, 3, 4)):
        jobs.append(dict(path=gen_c09.make(g), fname='_c09_strict', params={}, timeout=400 if g <= 3 else 2400, label=f'closest-list under strict classification references={g}',
                         bounds={'references': g, 'distances': 'values 0..3 (all tie patterns)', 'thresholds': 'genus and species each absent / 1 / 2', 'report_closest': f'1..{g + 1}'}))
    contract_cex = []

    def key_of(job, res, detail):
        contract_cex.append((job, res, detail))
        return 'CONTRACT'

    # contract-level counterexamples are not reported directly: the unstable sort is a contract stub that is deliberately
    # looser than any one platform, so a violation is reported only with an input that fails on the real numpy here
    results = runner.run_many(jobs)
    plat = None
    for j, r in zip(jobs, results):
        r['rung'] = tier
        if r['status'] == VIOLATED:
            call = r.get('call')
            rep, detail = runner.replay_call(j['path'], call, j.get('params')) if call else (False, {})
            if not rep:
                r['status'] = INCONCLUSIVE
                r['error'] = f'contract-level counterexample did not replay: {detail}'
            else:
                ex = detail.get('explain') or {}
                kinds = ex.get('argsort_kind_requested') if isinstance(ex, dict) else None
                if xprop.stub_gap(detail):
                    r['status'] = INCONCLUSIVE
                    r['error'] = f'harness stub incomplete (not a verdict on the code): {detail.get("exception")}'
                    run.obligations.append(r)
                    run.inconclusive.append(r)
                    continue
                if kinds is not None and kinds and all(k in ('stable', 'mergesort') for k in kinds):
                    # the code asked for a stable sort, so nothing in this counterexample depends on the sort contract:
                    # it is an ordinary, already replayed violation
                    rec = {'obligation': r['name'], 'harness': j['path'], 'call': call, 'params': j.get('params'), 'replay': detail}
                    run.report_violation(f'closest-list/{j["fname"]}', f'{r["name"]}: {call} -> {ex}', rec)
                    run.obligations.append(r)
                    continue
                if plat is None:
                    plat = platform_replay(ex.get('dists')) or False
                if plat:
                    rec = {'obligation': r['name'], 'contract_level_counterexample': {'call': call, 'explain': ex}, 'platform_replay': plat,
                           'how': 'real gambit.query.get_result_item with the real numpy on this machine'}
                    run.report_violation('query.py/get_result_item/argsort-tie-order',
                                         f'{r["name"]}: ties are ordered arbitrarily: real numpy run {plat}', rec)
                else:
                    r['status'] = INCONCLUSIVE
                    r['error'] = ('contract-level counterexample (an unstable sort may order ties arbitrarily) not reproduced with the numpy build on this platform: '
                                  f'{ex}')
        run.obligations.append(r)
        if r['status'] == INCONCLUSIVE:
            run.inconclusive.append(r)
        if r.get('sample'):
            run.samples.append({'obligation': r['name'], 'case': r['sample']})
    # the platform sweep is also run when CrossHair confirms (cheap, concrete): it must find nothing
    if plat is None:
        p = platform_replay()
        run.extra['platform_sweep'] = 'no tie-order deviation with the real numpy on rows of 2..100 tied distances' if not p else p
        if p:
            run.report_violation('query.py/get_result_item/argsort-tie-order', f'real numpy run {p}', {'platform_replay': p})
    xprop.note_sources(run, ['src/gambit/query.py', 'src/gambit/classify.py'])
    run.bounds = {'references': f'1..{sizes[-1]}', 'distances': 'every order type (ties included)', 'report_closest': '1..references+1',
                  'sort nondeterminism': 'every permutation that sorts the row, when the code requests an unstable kind'}
    run.stubs = ['numpy.argsort(kind=None/quicksort/heapsort) -> any sorting permutation (symbolic); kind=stable/mergesort -> the stable order',
                 'numpy.argmin -> first minimum', 'ReferenceDatabase -> object with the genome list; 2-taxon lineage with symbolic thresholds']
    run.outside = ['more references than the bound', 'CPU dispatch / thread count / chunk size: follow from determinism of the stable order plus C05']
    run.assumptions = ['numpy documents only kind="stable"/"mergesort" as stable; every other kind may return any sorting permutation']
    return run.finish(
        rule='one CrossHair condition per reference count; quantifies over distance order types, the permutation returned by an unstable sort, the list length and two thresholds; '
             'non-trivial = confirmed with a reachability twin containing a tie at the minimum',
        explanation='Symbolic execution of the real get_result_item/classify with numpy sorts replaced by their documented contracts.')
