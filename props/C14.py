"""C14 - signatures built with different k-mer parameters are never compared silently.  Engine X."""
import os
import sys
import shutil
import tempfile
import subprocess

from vlib.common import Run, REPO
from vlib import xprop

PID = 'C14'
H = '/verif/xh/h_c14.py'


def real_cli_replay():
    """End-to-end: `gambit -d TESTDB query -s SIGFILE` with a signature file built with other k-mer parameters, on the
    repository's own test database, through the real command line.  Returns a finding dict or None."""
    db = os.path.join(REPO, 'tests/data/testdb_210818')
    d = tempfile.mkdtemp(prefix='c14_', dir=os.environ.get('VERIF_SCRATCH', '/tmp'))
    try:
        code = (
            "import numpy as np\n"
            "from gambit.sigs import load_signatures, dump_signatures, AnnotatedSignatures, SignatureList\n"
            "from gambit.kmers import KmerSpec\n"
            f"ref = load_signatures({db!r} + '/ref-signatures.gs')\n"
            "other = KmerSpec(ref.kmerspec.k + 3, 'ATGAC')\n"
            "sigs = AnnotatedSignatures(SignatureList([np.array([1, 5, 9], dtype='u4'), np.array([2, 3], dtype='u4')], other), ['x', 'y'])\n"
            "dump_signatures('q.gs', sigs)\n"
            "print(ref.kmerspec, other)\n")
        env = dict(os.environ, PYTHONPATH=os.path.join(REPO, 'src'))
        p0 = subprocess.run(['/venv/bin/python', '-c', code], cwd=d, capture_output=True, text=True, env=env, timeout=120)
        if p0.returncode != 0:
            return {'error': 'could not build the scenario: ' + p0.stderr[-300:]}
        p = subprocess.run(['/venv/bin/python', '-m', 'gambit', '-d', db, 'query', '-s', 'q.gs', '-o', 'out.csv', '--no-progress'],
                           cwd=d, capture_output=True, text=True, env=env, timeout=300)
        out = os.path.join(d, 'out.csv')
        written = os.path.exists(out) and os.path.getsize(out) > 0
        if p.returncode == 0 or written:
            return {'command': f'gambit -d {db} query -s q.gs -o out.csv', 'parameters(db, sigfile)': p0.stdout.strip(), 'exit_status': p.returncode,
                    'result_written': written, 'output_head': open(out).read()[:200] if written else None}
        return None
    finally:
        shutil.rmtree(d, ignore_errors=True)


def main(tier):
    run = Run(PID, tier)
    jobs = []
    for fn, label, b in (
        ('_c14_dist', 'gambit dist', {'query side': '-q / --ql / --qs', 'reference side': '-r / --rl / --rs / --use-db / --square', 'parameters': '4 KmerSpecs differing in k, prefix, both; -k and -p each absent or from a pool'}),
        ('_c14_query', 'gambit query', {'input': 'GENOMES / -l / -s', 'parameters': 'signature file and database each from 4 KmerSpecs', 'strict': 'both'}),
        ('_c14_create', 'gambit signatures create', {'-k/-p': 'absent or from pools (incl. only one given)', '--db-params': 'both', 'database': '4 KmerSpecs'}),
        ('_c14_tree', 'gambit tree', {'input': 'GENOMES / -l / -s', '-k/-p': 'absent or from pools'})):
        jobs.append(dict(path=H, fname=fn, params={}, timeout=400, self_reach=True, label=label, bounds=b))

    def key_of(job, res, detail):
        ex = detail.get('explain') or {}
        if job['fname'] == '_c14_query' and ex.get('source') == '-s' and (ex.get('observed') or {}).get('status') == 'ok':
            real = real_cli_replay()
            detail['real_cli_replay'] = real
            if real and 'error' not in real:
                return 'cli/query.py/query_cmd/sigfile-kmerspec-not-checked'
        return f'{job["fname"]}'
    xprop.run_jobs(run, jobs, rung=tier, key_of=key_of)
    # the end-to-end scenario is cheap and concrete: run it on every invocation as a sanity check of the stubs
    real = real_cli_replay()
    run.extra['real_cli_scenario'] = real or 'gambit query -s <file with other k-mer parameters> is refused with a non-zero exit status and writes nothing'
    if real and 'error' not in real and not run.violations and not run.known:
        run.report_violation('cli/query.py/query_cmd/sigfile-kmerspec-not-checked', f'real CLI run: {real}', {'real_cli_replay': real})
    xprop.note_sources(run, ['src/gambit/cli/dist.py', 'src/gambit/cli/query.py', 'src/gambit/cli/signatures.py', 'src/gambit/cli/tree.py', 'src/gambit/cli/common.py', 'src/gambit/query.py'])
    run.bounds = {'commands': ['dist', 'query', 'signatures create', 'tree'], 'option combinations': 'every way of supplying each side',
                  'k-mer parameters': 'pool of 4 KmerSpecs (differing in prefix, in k, in both); explicit -k/-p each absent or from a pool, so incomplete and mismatching explicit options are included'}
    run.stubs = ['load_signatures / calc_file_signatures / jaccarddist_matrix / jaccarddist_pairwise / dump_dmat_csv / dump_signatures / exporter / get_result_item -> recording stubs',
                 'click context -> namespace with params, command, obj (database with chosen k-mer parameters)']
    run.outside = ['click option parsing itself', 'parameters outside the pool (the code compares KmerSpec objects for equality only)']
    run.assumptions = ['the solver enumerates the finite option/parameter space through fork_int; the real callbacks then run natively on each cell']
    return run.finish(
        rule='one CrossHair condition per command, quantifying over every source combination and every choice of k-mer parameters from the pool; '
             'non-trivial = confirmed (every cell executes the real callback; mismatching cells must raise ClickException before any distance call or write)',
        explanation='Symbolic case split (CrossHair/z3) over the option space of the real CLI callbacks with recording stubs; an end-to-end CLI run replays the query/sigfile case.')
