"""C18 - using a reference database never modifies it.  Engine X (solver-enumerated histories on the real files)."""
from vlib.common import Run
from vlib import xprop

PID = 'C18'
H = '/verif/xh/h_c18.py'
OPS = ['query', 'add-taxon+flush', 'edit-genome+flush', 'edit+autoflush-query', 'commit', 'delete+flush', 'inspect-signatures', 'distances+tree', 'failing-call',
       'edit-taxon-threshold', 'rollback', 'reopen']


def main(tier):
    run = Run(PID, tier, level='exploration')
    ln = 2 if tier == 'quick' else 3
    jobs = []
    PRE = ['nothing happened before', 'a writable session (readonly=False) on an unrelated file was used before', 'a writable session (cls=Session) on an unrelated file was used before']
    for pre, wal in ((0, 0), (1, 0), (2, 0), (0, 1)):
        for opener in (0, 1):
            for o0 in range(len(OPS)):
                if (pre or wal) and tier == 'quick' and o0 not in (1, 2, 3, 4, 11) + ((0, 6) if wal else ()):
                    continue        # quick tier: with a pre-history / WAL file only the histories starting with an edit / commit / reopen (/ query / inspection)
                jobs.append(dict(path=H, fname='_c18_history', params={'len': ln, 'opener': opener, 'o0': o0, 'pre': pre, 'wal': wal}, timeout=300 if tier == 'quick' else 1500, self_reach=True,
                                 unblock=['sqlite3.connect', 'sqlite3.connect/handle', 'open', 'shutil.copyfile', 'shutil.rmtree', 'os.mkdir', 'os.remove', 'os.rmdir', 'os.listdir', 'os.scandir'],
                                 label=f'histories of {ln} operations starting with {OPS[o0]}, database opened by {["ReferenceDatabase.load_from_dir", "the CLI context"][opener]}; {PRE[pre]}' + ('; genome file in WAL mode' if wal else ''),
                                 bounds={'history length': ln, 'operations': OPS, 'first operation': OPS[o0], 'opened by': ['library', 'CLI context'][opener], 'before opening': PRE[pre], 'genome file journal mode': 'WAL' if wal else 'rollback (as shipped)',
                                         'database': 'private copy of tests/data/testdb_210818 (SQLite genome file + HDF5 signature file)'}))
    xprop.run_jobs(run, jobs, rung=tier)
    run.extra['evaluations'] = sum(r.get('cells_executed', 0) for r in run.obligations)
    run.extra['distinct_nontrivial'] = sum(r.get('cells_distinct', 0) for r in run.obligations if r.get('status') == 'holds')
    run.extra['exhaustive'] = all(r.get('status') == 'holds' for r in run.obligations)
    run.samples.extend({'cell': r['cell_sample']} for r in run.obligations[:6] if r.get('cell_sample'))
    xprop.note_sources(run, ['src/gambit/db/sqla.py', 'src/gambit/db/refdb.py', 'src/gambit/cli/common.py', 'src/gambit/sigs/hdf5.py', 'src/gambit/sigs/base.py'])
    run.bounds = {'histories': f'every sequence of {ln} operations out of {len(OPS)} kinds x 2 ways of opening the database = {2 * len(OPS) ** ln} histories',
                  'observed': 'sha256 of both files after every step and after closing; every statement sent to the SQLite engine; commit() outcome; directory listing at the end'}
    run.stubs = ['none: real SQLAlchemy / SQLite / h5py on a private copy of the repository test database']
    run.outside = ['longer histories and other operations (CLI sub-commands are represented by the library calls they make: query, distance matrix, tree clustering, signature inspection)',
                   'raw SQL sent by the user through the session (not a read-side command)', 'what SQLite / libhdf5 do below the file API (trusted as executed)', 'crashes in the middle of an operation']
    run.assumptions = ['"never flushes pending changes" is observed as: no INSERT/UPDATE/DELETE/DDL statement reaches the engine of the session handed out by the library, including through autoflush',
                       '"refuses to commit" is observed as: commit() raises']
    return run.finish(
        rule='one CrossHair condition per (way of opening, first operation); the solver case-splits the remaining operations; every history runs natively; non-trivial = confirmed over all cells',
        explanation='Solver-enumerated bounded histories of read-side calls and ORM edits against the real database files; byte identity and the absence of data-modifying SQL are checked after every step.')
