"""C01 - a signature is exactly the set of prefix-anchored k-mers on both strands.  Engine K on
gambit.kmers.find_kmers / KmerMatch, gambit.sigs.calc (accumulate_kmers, calc_signature, accumulators), kmers.pyx."""
import os
import itertools
import z3
import numpy as np

from vlib.common import Run, run_pool, HOLDS, VIOLATED, INCONCLUSIVE
from vlib import cybin
from kbmc.harness import *
from kbmc.sym import *
from kbmc.models import IndexArrayM, val_bv64
from specs import kmers_spec as S

PID = 'C01'
TO = 600
GRID = [(1, 'A'), (1, 'AT'), (2, 'T'), (2, 'AT'), (2, 'AA'), (3, 'A'), (3, 'AT'), (3, 'AA'), (3, 'ATG'), (2, 'ATG'), (1, 'ATG')]


def make_spec(ks, k, prefix):
    o = ks.call(ks.lookup('gambit.kmers', 'KmerSpec'), k, prefix)
    if o.raised is not False:
        raise CannotEncode('KmerSpec constructor raised')
    return o.ret


def make_acc(ks, acc, k):
    if acc == 'default':
        return None
    cls = ks.lookup('gambit.sigs.calc', {'array': 'ArrayAccumulator', 'set': 'SetAccumulator'}[acc])
    o = ks.call(cls, k)
    if o.raised is not False:
        raise CannotEncode('accumulator constructor raised')
    return o.ret


def run_sig(k, prefix, lens, pytype='bytes', acc='default', names=None, ks=None, single=None):
    """Symbolically execute calc_signature(KmerSpec(k,prefix), seqs, accumulator=acc).  Returns session, outcome, cells."""
    n_total = sum(lens)
    # search loops: one iteration per admissible match position plus the final failing find, plus one spare so that an
    # off-by-one in a search bound shows up as a wrong signature rather than as an unwinding failure
    positions = max(0, max(lens) - (k + len(prefix)) + 1)
    ks = ks or KSession(max_unroll=positions + 3)
    spec = make_spec(ks, k, prefix)
    seqs, cells = [], []
    for i, n in enumerate(lens):
        sq, c = sym_bytes((names or 'stuvw')[i], n, pytype)
        seqs.append(sq)
        cells.append(c)
    a = make_acc(ks, acc, k)
    single = (len(lens) == 1) if single is None else single
    arg = seqs[0] if single else seqs
    kw = {} if a is None else {'accumulator': a}
    out = ks.call(ks.lookup('gambit.sigs.calc', 'calc_signature'), spec, arg, **kw)
    return ks, out, seqs, cells


def member(sig, v):
    return lor(*[land(g, val_bv64(x) == v) for g, x in sig.inserts])


def ob_sig(k, prefix, lens, pytype='bytes', acc='default', second=None):
    lens = tuple(lens)
    ks, out, seqs, cells = run_sig(k, prefix, lens, pytype, acc)
    name = f'sig k={k} prefix={prefix} lens={list(lens)} type={pytype} acc={acc}'
    pre = []
    if pytype in ('str', 'Seq'):
        pre = [z3.ULT(c, 128) for cs in cells for c in cs]      # documented domain: ASCII text
    allc = [c for cs in cells for c in cs]
    ex = lambda m: {'seqs_hex': [model_bytes(m, cs).hex() for cs in cells], 'k': k, 'prefix': prefix, 'type': pytype, 'acc': acc}
    sig = out.ret
    if not isinstance(sig, IndexArrayM):
        viol = True
        reach = [('reach', True)]
    else:
        occ = []
        for cs in cells:
            occ.extend(S.occurrences(cs, k, prefix.encode()))
        spec_member = lambda v: lor(*[land(c, idx == v) for c, idx, _, _ in occ])
        unsound = lor(*[land(g, lnot(spec_member(val_bv64(x)))) for g, x in sig.inserts])
        incomplete = lor(*[land(c, lnot(member(sig, idx))) for c, idx, _, _ in occ])
        shape_bad = lor(lnot(sig.is_sorted), not sig.unique, str(sig.dtype) != str(np.dtype(S.index_dtype_str(k))), sig.fits is not True)
        viol = lor(out.raised, unsound, incomplete, shape_bad)
        fw = [c for c, _, s, _ in occ if s == '+']
        rv = [c for c, _, s, _ in occ if s == '-']
        reach = [('some-forward-match', lor(*fw)), ('some-reverse-match', lor(*rv))] if occ else [('reach', True)]
        opt = []
        if len(occ) >= 4:
            opt.append(('two-distinct-kmers', lor(*[land(c1, c2, i1 != i2) for (c1, i1, _, _), (c2, i2, _, _) in itertools.combinations(occ, 2)][:200])))
    res = decide(name, pre, viol, ks, ex, TO, reach_goals=reach, second=second, optional_goals=opt if isinstance(sig, IndexArrayM) else None,
                 bounds={'k': k, 'prefix': prefix, 'lengths': list(lens), 'type': pytype, 'accumulator': acc, 'bytes': 'all 256 values per position'})
    if res['status'] == VIOLATED and isinstance(sig, IndexArrayM) and sig.is_sorted is not True:
        # The order of a set's elements is a contract-level unknown.  To replay on this platform pick a model whose
        # values CPython's set really iterates out of order (small ints, 8-slot table: slot = value & 7).
        from kbmc import smt
        pairs = []
        ins = sig.inserts
        for (g1, x1), (g2, x2) in itertools.permutations(ins, 2):
            a, b = val_bv64(x1), val_bv64(x2)
            pairs.append(land(g1, g2, z3.ULT(a, b), z3.UGT(a & 7, b & 7), z3.ULT(b, 64)))
            if len(pairs) > 300:
                break
        distinct_small = land(*[lor(lnot(g), z3.ULT(val_bv64(x), 64)) for g, x in ins])
        r = smt.solve(smt.Query(name + '/unsorted-on-cpython', pre, land(lnot(sig.is_sorted), lor(*pairs), distinct_small, lnot(out.raised)), 'violation'), 60)
        res['queries'].append({'q': 'replay steering: set iteration out of order on CPython', 'result': r['result'], 'time_s': r['time_s']})
        if r['result'] == 'sat':
            res['cex'] = ex(r['model'])
            res['cex_kind'] = 'unsorted result (set iteration order)'
    return res


def ob_dtype():
    """index_dtype(k) and KmerSpec(k, .).index_dtype for every k of the domain (1..32): the smallest unsigned type holding 4^k - 1."""
    ks = KSession()
    fn = ks.lookup('gambit.kmers', 'index_dtype')
    bad = []
    for k in range(1, 33):
        o = ks.call(fn, k)
        want = str(np.dtype(S.index_dtype_str(k)))
        got = None if o.raised is not False else (str(np.dtype(o.ret)) if isinstance(o.ret, (np.dtype, str, type)) else repr(o.ret))
        sp = make_spec(ks, k, 'A')
        got2 = str(np.dtype(ks.ip.getattr(sp, 'index_dtype')))
        if got != want or got2 != want:
            bad.append({'k': k, 'index_dtype': got, 'KmerSpec.index_dtype': got2, 'want': want})
    res = {'name': 'index dtype for every k in 1..32', 'queries': [{'q': 'concrete evaluation of the translated index_dtype / KmerSpec for each of the 32 values of k', 'result': 'unsat' if not bad else 'sat', 'time_s': 0.0}],
           'bounds': {'k': '1..32 (the whole domain)'}, 'encoded': ks.encoded, 'reach': 'sat', 'sample': {'k': 16, 'dtype': 'uint32'}}
    if bad:
        res['status'] = VIOLATED
        res['cex'] = {'dtype_k': bad[0]['k'], 'detail': bad[:4]}
        res['cex_kind'] = 'assertion'
    else:
        res['status'] = HOLDS
    return res


def ob_pure(k, prefix, lens1, n2, second=None):
    """The signature is a function of (k, prefix, sequences) only: an earlier computation in the same process - finished or
    failed half-way (a str sequence with a non-ASCII character raises after the first sequence was accumulated) - leaves
    nothing behind.  Two calls in one session share every module-level object of gambit.sigs.calc / gambit.kmers."""
    lens1 = tuple(lens1)
    positions = max(0, max(lens1 + (n2,)) - (k + len(prefix)) + 1)
    ks = KSession(max_unroll=positions + 3)
    spec = make_spec(ks, k, prefix)
    first, fcells = [], []
    for i, n in enumerate(lens1):
        sq, c = sym_bytes('pq'[i], n, 'bytes' if i == 0 else 'str')
        first.append(sq)
        fcells.append(c)
    fn = ks.lookup('gambit.sigs.calc', 'calc_signature')
    out1 = ks.call(fn, spec, first)
    t, tc = sym_bytes('t', n2, 'bytes')
    out = ks.call(fn, spec, t)
    name = f'pure k={k} prefix={prefix} first={list(lens1)} then={n2}'
    ex = lambda m: {'first_hex': [model_bytes(m, cs).hex() for cs in fcells], 'seqs_hex': [model_bytes(m, tc).hex()], 'k': k, 'prefix': prefix,
                    'type': 'bytes', 'acc': 'default', 'first_types': ['bytes', 'str']}
    sig = out.ret
    if not isinstance(sig, IndexArrayM):
        viol, reach = True, [('reach', True)]
    else:
        occ = S.occurrences(tc, k, prefix.encode())
        spec_member = lambda v: lor(*[land(c, idx == v) for c, idx, _, _ in occ])
        unsound = lor(*[land(g, lnot(spec_member(val_bv64(x)))) for g, x in sig.inserts])
        incomplete = lor(*[land(c, lnot(member(sig, idx))) for c, idx, _, _ in occ])
        viol = lor(out.raised, unsound, incomplete, lnot(sig.is_sorted))
        occ1 = S.occurrences(fcells[0], k, prefix.encode())
        reach = [('first-call-fails-after-a-match', land(out1.raised, lor(*[c for c, _, _, _ in occ1]))),
                 ('first-call-succeeds-with-a-match', land(lnot(out1.raised), lor(*[c for c, _, _, _ in occ1]))),
                 ('second-call-has-a-match', lor(*[c for c, _, _, _ in occ]))]
    return decide(name, [], viol, ks, ex, TO, reach_goals=reach, second=second,
                  bounds={'k': k, 'prefix': prefix, 'first call': f'bytes[{lens1[0]}] + str[{lens1[1]}] (any code points, so it may fail half-way)',
                          'second call': f'bytes[{n2}]', 'bytes': 'all 256 values per position'})


# ------------------------------------------------------------------------------------------------ replay

def real_signature(k, prefix, seqs, pytype, acc):
    """calc_signature on the real code.  kmers.py/calc.py are always the real modules; the kernels come from the
    compiled extension when it is in sync with kmers.pyx, otherwise the whole computation is evaluated concretely by
    engine K from the current sources."""
    sync, why = cybin.in_sync('kmers')
    if sync:
        import gambit.kmers as gk
        import gambit.sigs.calc as gc
        from Bio.Seq import Seq
        conv = {'bytes': bytes, 'bytearray': bytearray, 'str': lambda b: b.decode('latin-1'), 'Seq': lambda b: Seq(bytes(b))}[pytype]
        spec = gk.KmerSpec(k, prefix)
        a = None if acc == 'default' else (gc.ArrayAccumulator(k) if acc == 'array' else gc.SetAccumulator(k))
        arg = [conv(s) for s in seqs]
        try:
            r = gc.calc_signature(spec, arg[0] if len(arg) == 1 else arg, accumulator=a)
            return ('ok', [int(x) for x in r], str(r.dtype)), 'real gambit modules (compiled kernels in sync with kmers.pyx)'
        except Exception as e:   # noqa
            return (type(e).__name__, None, None), 'real gambit modules (compiled kernels in sync with kmers.pyx)'
    ks = KSession(max_unroll=max(len(s) for s in seqs) + 3)
    spec = make_spec(ks, k, prefix)
    a = make_acc(ks, acc, k)
    arg = [conc_bytes(s, pytype) for s in seqs]
    kw = {} if a is None else {'accumulator': a}
    o = ks.call(ks.lookup('gambit.sigs.calc', 'calc_signature'), spec, arg[0] if len(arg) == 1 else arg, **kw)
    how = f'concrete evaluation of the current sources by engine K (binary stale: {why})'
    if o.raised is True:
        return (f'exception code {o.code}', None, None), how
    sig = o.ret
    vals = sorted({(x.term if isinstance(x, CVal) else int(x)) for g, x in sig.inserts if g is True})
    return ('ok' if sig.is_sorted else 'ok-unsorted', vals, str(sig.dtype)), how


def replay_pure(cex):
    """Both calls on the real modules in one fresh interpreter (the compiled kernels hold no state; a stale binary does not
    matter for what the Python layer keeps between calls)."""
    import subprocess, sys, json
    code = (
        "import sys, json\n"
        "import gambit.kmers as gk, gambit.sigs.calc as gc\n"
        "c = json.loads(sys.argv[1])\n"
        "spec = gk.KmerSpec(c['k'], c['prefix'])\n"
        "first = [bytes.fromhex(h) if t == 'bytes' else bytes.fromhex(h).decode('latin-1') for h, t in zip(c['first_hex'], c['first_types'])]\n"
        "try:\n"
        "    gc.calc_signature(spec, first); f = 'returned'\n"
        "except Exception as e:\n"
        "    f = type(e).__name__\n"
        "try:\n"
        "    r = gc.calc_signature(spec, bytes.fromhex(c['seqs_hex'][0])); out = ['ok', [int(x) for x in r], str(r.dtype)]\n"
        "except Exception as e:\n"
        "    out = [type(e).__name__, None, None]\n"
        "print(json.dumps({'first': f, 'second': out}))\n")
    p = subprocess.run([sys.executable, '-c', code, json.dumps(cex)], capture_output=True, text=True, timeout=120)
    lines = [l for l in p.stdout.splitlines() if l.startswith('{')]
    if not lines:
        return False, {'error': 'replay produced no result', 'stderr': p.stderr[-400:]}
    d = json.loads(lines[-1])
    t = bytes.fromhex(cex['seqs_hex'][0])
    want = ['ok', S.py_signature(cex['k'], cex['prefix'].encode(), [t]), str(np.dtype(S.index_dtype_str(cex['k'])))]
    return d['second'] != want, {'how': 'real gambit modules, two calls in one interpreter', 'first_call': d['first'], 'got': d['second'], 'want': want,
                                 'first': cex['first_hex'], 'second': repr(t)}


def replay(cex):
    if 'first_hex' in cex:
        return replay_pure(cex)
    if 'dtype_k' in cex:
        import gambit.kmers as gk
        k = cex['dtype_k']
        got = (str(gk.index_dtype(k)), str(gk.KmerSpec(k, 'A').index_dtype))
        want = str(np.dtype(S.index_dtype_str(k)))
        return got != (want, want), {'how': 'real gambit.kmers.index_dtype / KmerSpec', 'k': k, 'got': got, 'want': want}
    seqs = [bytes.fromhex(h) for h in cex['seqs_hex']]
    k, prefix = cex['k'], cex['prefix']
    got, how = real_signature(k, prefix, seqs, cex['type'], cex['acc'])
    want = ('ok', S.py_signature(k, prefix.encode(), seqs), str(np.dtype(S.index_dtype_str(k))))
    return got != want, {'how': how, 'got': got, 'want': want, 'seqs': [repr(s) for s in seqs]}


def validate_translator(run):
    import random
    rnd = random.Random(int(os.environ.get('VERIF_SEED', '0') or 0) + 1)
    cases = [(3, 'AT', [b'ATGACxxGTCAT']), (2, 'A', [b'AAAAAA']), (1, 'ATG', [b'catg', b'ATGa']), (2, 'AT', [b'', b'AT', b'ATA']),
             (11, 'ATGAC', [b'ATGACGTTTGACCAGTtttacgatcgatcagGTCATaaa']), (12, 'AT', [b'ATACGTACGTACGTnATACGTACGTACGT'])]
    for _ in range(12):
        k, p = rnd.choice(GRID)
        cases.append((k, p, [bytes(rnd.choice(b'ACGTacgtN') for _ in range(rnd.randint(0, 14))) for _ in range(rnd.randint(1, 2))]))
    mism = []
    sync, why = cybin.in_sync('kmers')
    for k, p, seqs in cases:
        for pytype, acc in (('bytes', 'default'), ('str', 'set'), ('bytearray', 'array') if k <= 8 else ('Seq', 'set')):
            ks = KSession(max_unroll=max(len(s) for s in seqs) + 3)
            spec = make_spec(ks, k, p)
            a = make_acc(ks, acc, k)
            arg = [conc_bytes(s, pytype) for s in seqs]
            kw = {} if a is None else {'accumulator': a}
            o = ks.call(ks.lookup('gambit.sigs.calc', 'calc_signature'), spec, arg[0] if len(arg) == 1 else arg, **kw)
            got = sorted({(x.term if isinstance(x, CVal) else int(x)) for g, x in o.ret.inserts if g is True}) if isinstance(o.ret, IndexArrayM) else None
            want = S.py_signature(k, p.encode(), seqs)
            if got != want:
                mism.append(('K-vs-spec', k, p, seqs, got, want))
            if sync:
                real, _ = real_signature(k, p, seqs, pytype, acc)
                if real[1] != got:
                    mism.append(('K-vs-real', k, p, seqs, got, real))
    run.extra['translator_validation'] = {'vectors': len(cases) * 3, 'compiled_in_sync': sync, 'sync_detail': why, 'mismatches': [str(m)[:300] for m in mism[:5]]}
    return mism


def plan(tier):
    specs = []
    N1 = 6 if tier == 'quick' else 9
    for k, p in GRID:
        for n in range(0, N1 + 1):
            if tier == 'thorough' and len(p) == 1 and n > 8:
                continue        # one-letter prefixes match almost everywhere: length 9 does not finish within the time limit
            specs.append(dict(k=k, prefix=p, lens=[n]))
        # two sequences
        tot = 6 if tier == 'quick' else 8
        for n1 in range(0, tot + 1):
            n2 = tot - n1
            if (k, p) in ((2, 'AT'), (3, 'AA'), (1, 'A'), (2, 'ATG')) or tier == 'thorough':
                specs.append(dict(k=k, prefix=p, lens=[n1, n2]))
    # other input types and explicit accumulators (same formula apart from the conversion layer / accumulator model)
    for k, p in ((2, 'AT'), (3, 'AA'), (1, 'ATG')):
        for pytype in ('str', 'bytearray', 'Seq'):
            for n in ((4, 6) if tier == 'quick' else (3, 5, 7, 8)):
                specs.append(dict(k=k, prefix=p, lens=[n], pytype=pytype))
        for acc in ('array', 'set'):
            for n in ((5, 6) if tier == 'quick' else (4, 6, 8)):
                specs.append(dict(k=k, prefix=p, lens=[n], acc=acc))
            specs.append(dict(k=k, prefix=p, lens=[3, 3], acc=acc, pytype='str'))
    # the default-accumulator switch (k > 11 -> set) and wider dtypes
    # ... including every k at which the smallest sufficient integer type changes (4|5, 8|9, 16|17) and the largest k
    for k, p, n in ((11, 'ATGAC', 17), (12, 'AT', 15), (5, 'AT', 8), (9, 'A', 11), (17, 'A', 19), (4, 'AT', 7), (8, 'AT', 11), (16, 'AT', 19), (32, 'A', 33)):
        specs.append(dict(k=k, prefix=p, lens=[n]))
        if tier == 'thorough':
            specs.append(dict(k=k, prefix=p, lens=[n + 1]))
    return specs


def main(tier):
    run = Run(PID, tier)
    try:
        mism = validate_translator(run)
    except CannotEncode as e:
        # the current sources use something engine K cannot encode: the K obligations below will say so one by one; whatever other
        # conditions the check has still run
        mism = [('translator validation not possible', str(e))]
    if mism:
        run.inconclusive.append({'name': 'translator-validation', 'status': INCONCLUSIVE, 'error': str(mism[:2])[:600]})
    def second_for(p):
        # cross-check with a second solver where it is affordable: cvc5 up to total length 6, the older z3 binary up to 8
        if tier != 'thorough':
            return None
        tot = sum(p['lens'])
        return 'cvc5' if tot <= 6 else ('z3bin' if tot <= 8 else None)
    specs = [('props.C01', 'ob_sig', dict(p, second=second_for(p))) for p in plan(tier)]
    specs.sort(key=lambda s: -(sum(s[2]['lens']) * 10 + s[2]['k']))
    specs.append(('props.C01', 'ob_dtype', {}))
    # history independence: (k, prefix) on both sides of the default-accumulator switch
    for k, p, extra in ((2, 'AT', 1), (3, 'A', 1), (12, 'A', 0)) + (((1, 'ATG', 2), (11, 'AT', 0)) if tier == 'thorough' else ()):
        n = k + len(p) + extra
        specs.append(('props.C01', 'ob_pure', dict(k=k, prefix=p, lens1=[n, 1], n2=n)))
    results = run_pool(specs, budget_s=3000 if tier == 'thorough' else 900)
    run.add_results(results, rung=tier)
    for r in results:
        if r['status'] == VIOLATED:
            cex = r.get('cex') or {}
            rep, detail = replay(cex) if ('seqs_hex' in cex or 'dtype_k' in cex) else (False, {})
            rec = {'obligation': r['name'], 'inputs': cex, 'cex_kind': r.get('cex_kind'), 'replay': detail, 'spec': r['spec']}
            if rep:
                run.report_violation('calc_signature', f'{r["name"]}: {detail}', rec)
            else:
                r['status'] = INCONCLUSIVE
                r['error'] = f'counterexample did not reproduce on the real code: {rec}'
                run.inconclusive.append(r)
    run.bounds = {'(k,prefix) grid': GRID + [(11, 'ATGAC'), (12, 'AT'), (5, 'AT'), (9, 'A'), (17, 'A')],
                  'sequence length': '0..6 one sequence, total 6 two sequences (quick); 0..9 (0..8 for one-letter prefixes) / total 8 (thorough)', 'bytes': 'all 256 values per position'}
    run.outside = ['sequences longer than the bound', 'prefixes outside the grid', 'ArrayAccumulator for k > 11 (4^k-element array)',
                   'non-ASCII str input (raises UnicodeEncodeError; outside the documented domain)', 'Biopython Seq internals (modelled as bytes: __getitem__ slicing and bytes())']
    run.assumptions = ['library models of kbmc.models (bytes.find/upper/slicing, numpy zeros/flatnonzero/fromiter/sort as "the set S with dtype D, sorted flag") validated differentially',
                       'set iteration order is arbitrary (a missing sort is a violation)', 'python ints encoded as 32-bit bit-vectors with no-overflow obligations']
    return run.finish(
        rule='one obligation per (k, prefix, sequence lengths, input type, accumulator); each quantifies over every byte of every sequence; '
             'non-trivial = discharged with satisfiable forward-match, reverse-match and two-distinct-k-mers witnesses',
        explanation='Bounded model checking of find_kmers + accumulate_kmers + accumulators + kernels against the set definition of the property text.')
