"""C11 - every export format is a faithful image of the query results.  Engine X."""
from vlib.common import Run
from vlib import xprop

PID = 'C11'
H = '/verif/xh/h_c11.py'


def main(tier):
    run = Run(PID, tier)
    jobs = []
    names = (1, 2, 3, 4, 10) if tier == 'quick' else range(12)
    for i in names:
        for wf in (0, 1):
            params = {'name_i': i, 'maxdist': 4, 'file': wf} if tier == 'quick' else {'name_i': i, 'file': wf}
            jobs.append(dict(path=H, fname='_c11_one', params=params, timeout=600 if tier == 'quick' else 1500, self_reach=True,
                             label=f'one item, database/taxon/genome text pool entry #{i}, source file {"present" if wf else "absent"}',
                             bounds={'label': '12 texts (commas, quotes, newlines, CR LF, tabs, non-ASCII, empty, padded, leading - and =)', 'predicted': 'none / species / unreportable taxon with reportable ancestor / genus / unreportable taxon without any reportable ancestor',
                                     'next': 'none / species / genus', 'distance': 'float32 pool (0, 1, 0.1f, 1/3f, denormal, 1-ulp, 2.5e-7)' + (' first 4' if tier == 'quick' else ''),
                                     'source file': 'present' if wf else 'absent', 'failed strict result with warning and error': 'yes / no', 'archive readers': 'two alive at once, read in the order old, new, old'}))
    if tier == 'quick':
        jobs.append(dict(path=H, fname='_c11_many', params={'name_i': 1, 'maxitems': 2}, timeout=600, self_reach=True, label='0..2 items, every presence pattern',
                         bounds={'items': '0..2', 'patterns': 'predicted x next x failed per item'}))
    else:
        for p0 in range(5):
            jobs.append(dict(path=H, fname='_c11_many', params={'name_i': 1, 'maxitems': 3, 'p0': p0}, timeout=2400, self_reach=True, label=f'0..3 items, every presence pattern (item 0 predicted={p0})',
                             bounds={'items': '0..3', 'patterns': 'predicted x next x failed per item'}))
    jobs.sort(key=lambda j: -j['timeout'])
    xprop.run_jobs(run, jobs, rung=tier)
    xprop.note_sources(run, ['src/gambit/results.py', 'src/gambit/util/json.py', 'src/gambit/query.py', 'src/gambit/classify.py'])
    run.bounds = {'result sets': '0..2 (quick) / 3 (thorough) items', 'text fields': 'pool of 12 awkward strings used for labels, taxon / genome / database names and metadata',
                  'numbers': 'float32 distance pool, threshold pool incl. 0.1+0.2', 'formats': 'csv (parsed back with csv.reader), json (parsed back with json.loads), archive (read back with ResultsArchiveReader against the same in-memory database)'}
    run.stubs = ['none: the real exporters, the csv / json modules and SQLAlchemy run natively on each cell; the database is an in-memory SQLite built by the harness']
    run.outside = ['texts and numbers outside the pools', 'larger result sets', 'writing to real files']
    run.assumptions = ['the solver enumerates the finite pool space through fork_int (bounded-exhaustive over the pools, not over all strings)',
                       'the documented CSV columns are taken from docs/source/cli.rst ("Result Formats") with the misspelt closest.decription read as closest.description']
    return run.finish(
        rule='one CrossHair condition per text-pool entry (single item, all field combinations) and per multi-item pattern set; non-trivial = confirmed over all cells',
        explanation='CrossHair-driven exhaustive case split over result-set shapes and pooled field values; each cell exports in all three formats and reads them back.')
