"""C03 - default classification follows the closest genome's lineage and thresholds.  Engine X."""
from vlib.common import Run
from vlib import xprop
from xh import gen_c03, taxo

PID = 'C03'


def main(tier):
    run = Run(PID, tier)
    jobs = []

    def add(T, G, shapes, split, timeout, mono=True):
        path = gen_c03.make(T, G)
        for shape in shapes:
            a0s = range(T) if split else [None]
            for a0 in a0s:
                params = {'shape': shape} if a0 is None else {'shape': shape, 'a0': a0}
                jobs.append(dict(path=path, fname='_c03_default', params=params, timeout=timeout, twin='_c03_reach' if a0 is None else None, twin_timeout=60,
                                 label=f'default T={T} G={G} shape={shape}' + ('' if a0 is None else f' genome0->taxon{a0}'),
                                 bounds={'taxa': T, 'genomes': G, 'shape': shape, 'thresholds': 'absent or any order type', 'distances': 'any order type incl. ties with thresholds',
                                         'report flags': 'all', 'genome->taxon': 'all' if a0 is None else f'genome0 on taxon {a0}, others all'}))
            if mono:
                jobs.append(dict(path=path, fname='_c03_monotone', params={'shape': shape}, timeout=min(timeout, 200), self_reach=True,
                                 label=f'monotone T={T} shape={shape}', bounds={'taxa': T, 'shape': shape}))
    if tier == 'quick':
        for T in (1, 2, 3):
            add(T, 2, taxo.forests(T), split=False, timeout=240)
        add(4, 2, [[-1, 0, 1, 2], [-1, 0, 0, 1]], split=True, timeout=240)
    else:
        for T in (1, 2, 3):
            add(T, 2, taxo.forests(T), split=False, timeout=600)
        add(3, 3, taxo.forests(3), split=True, timeout=900, mono=False)
        add(4, 2, taxo.forests(4), split=True, timeout=900)
        add(5, 2, [[-1, 0, 1, 2, 3], [-1, 0, 1, 1, 3], [-1, 0, 0, 1, 2], [-1, -1, 0, 1, 3]], split=True, timeout=1800)
        add(5, 1, taxo.forests(5), split=False, timeout=900)
    jobs.append(dict(path=gen_c03.make(2, 1), fname='_c03_near', params={'shape': [-1, 0]}, timeout=400, label='near ties: two genomes whose distances differ by one ulp .. 1e-5 (binary64 and float32)',
                     bounds={'distances': '11 pooled values: 0.5 / 0.25 / 1.0 and neighbours at one ulp, 5e-6 and 2e-5 relative distance, 0, 1e-9', 'genomes': 2, 'placement': 'every assignment to genus / species',
                             'thresholds': 'pool of 4 on both taxa', 'oracle': 'exact rational comparison'}))
    jobs.append(dict(path=gen_c03.make(2, 1), fname='_c03_floats', params={'shape': [-1, 0]}, timeout=200, label='float boundary: distances within one ulp of a threshold (binary64 and float32)',
                     bounds={'thresholds': 'pool 0.1 / 0.3 / 0.5 / 0.7 on a two-taxon lineage', 'distances': 'the threshold, its float32 rounding, and one step above / below each, as float64 and float32'}))
    jobs.sort(key=lambda j: -j['timeout'])
    xprop.run_jobs(run, jobs, rung=tier, key_of=key_of)
    xprop.note_sources(run, ['src/gambit/classify.py', 'src/gambit/query.py', 'src/gambit/db/models.py'])
    run.bounds = {'quick': 'all forests with <= 3 taxa (up to isomorphism) x 2 genomes; 4 taxa: chain and one branching shape x 2 genomes',
                  'thorough': 'all forests with <= 4 taxa x 2 genomes, <= 3 taxa x 3 genomes, 5 taxa: all 20 shapes x 1 genome and 4 shapes x 2 genomes',
                  'values': 'thresholds absent or present; thresholds and distances range over every order type (ties included)'}
    run.stubs = ['numpy.argmin -> first index of the minimum (documented contract); numpy.argsort -> stable order (unused: report_closest=0)',
                 'ReferenceDatabase -> object with the genome list']
    run.outside = ['forests larger than the bounds', 'float comparisons away from the pooled boundary values (elsewhere values are modelled by their order type)',
                   'more than 3 genomes (in non-strict mode only the closest genome and a tie partner matter)']
    run.assumptions = ['classify/matching_taxon/next_taxon use thresholds and distances only through order comparisons, so integer order types are exhaustive',
                       'CrossHair "Confirmed over all paths" = every feasible path of the harness explored']
    return run.finish(
        rule='one CrossHair condition per (forest shape, genome count[, taxon of genome 0]); each quantifies over thresholds (present/absent, all order types), report flags, '
             'distances and genome placement; non-trivial = confirmed with a reachability twin (prediction at distance == threshold)',
        explanation='Symbolic execution (CrossHair/z3) of the real classification code on real model objects against a transcription of the property text.')


def key_of(job, res, detail):
    ex = detail.get('explain') or {}
    got, want = ex.get('got') or {}, (ex.get('want_one_of') or [{}])
    if isinstance(got, dict) and want and all(got.get(k) == want[0].get(k) for k in ('closest', 'predicted', 'primary', 'report')) and got.get('next') != want[0].get('next'):
        th = ex.get('thresholds(-1=none)') or []
        nxt = got.get('next')
        if nxt is not None and nxt < len(th) and th[nxt] == -1:
            return 'classify.py/GenomeMatch.next_taxon/returns-taxon-without-threshold'
        return 'classify.py/GenomeMatch.next_taxon'
    return f'{job["fname"]}'
