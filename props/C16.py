"""C16 - the distance-matrix command labels and fills every cell correctly.  Engine X."""
from vlib.common import Run
from vlib import xprop

PID = 'C16'
H = '/verif/xh/h_c16.py'


def main(tier):
    run = Run(PID, tier)
    jobs = []
    qn, rn = ['-q', '--ql/--qdir', '--qs'], ['-r', '--rl/--rdir', '--rs', '--use-db', '--square']
    for q in range(3):
        for r in range(5):
            params = {'qsrc': q, 'rsrc': r, 'maxn': 2} if tier == 'quick' else {'qsrc': q, 'rsrc': r, 'maxn': 3, 'nnames': 4}
            jobs.append(dict(path=H, fname='_c16_dist', params=params, timeout=400 if tier == 'quick' else 2400, self_reach=True, label=f'dist queries via {qn[q]}, references via {rn[r]}',
                             bounds={'queries': f'1..{params["maxn"]} genomes drawn with repetition from {params.get("nnames", 6)} (identical pairs, disjoint pair, empty signature, sub-directories, .gz names)',
                                     'references': 'likewise', 'sources': f'{qn[q]} x {rn[r]}'}))
    xprop.run_jobs(run, jobs, rung=tier)
    xprop.note_sources(run, ['src/gambit/cli/dist.py', 'src/gambit/cluster.py', 'src/gambit/metric.py', 'src/gambit/cli/common.py'])
    run.bounds = {'source configurations': 'all 3 x 5', 'sizes': '1..2 x 1..2 (quick) / 1..3 x 1..3 (thorough)', 'genomes': 'pool of 6 (quick) / 4 (thorough) small signatures, drawn with repetition in any order'}
    run.stubs = ['load_signatures / calc_file_signatures -> real signature collections determined by the file name or stored ID (no files are read)', 'output -> in-memory text file']
    run.outside = ['k/prefix options (C14)', 'core counts', 'rounding of arbitrary float32 values by format(d, "0.4f") beyond the distances occurring in the pool', 'reading real files']
    run.assumptions = ['the oracle for a cell is format(jaccarddist(query, ref), "0.4f") with the two-signature distance decided by C02']
    return run.finish(
        rule='one CrossHair condition per source configuration; quantifies over sizes and over which genomes appear in which order; non-trivial = confirmed over all cells',
        explanation='CrossHair-driven exhaustive case split of the real dist callback; the written CSV is read back and compared label by label and cell by cell.')
