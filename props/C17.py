"""C17 - the tree command outputs the UPGMA dendrogram of the pairwise distances.  Engine X."""
from vlib.common import Run
from vlib import xprop

PID = 'C17'
H = '/verif/xh/h_c17.py'


def main(tier):
    run = Run(PID, tier)
    jobs = []
    for n in ((2, 3, 4) if tier == 'quick' else (2, 3, 4, 5)):
        jobs.append(dict(path=H, fname='_c17_linkage', params={'n': n}, timeout={2: 60, 3: 60, 4: 200, 5: 2400}[n], self_reach=True, label=f'linkage_to_bio_tree, {n} leaves',
                         bounds={'leaves': n, 'merge order': 'every sequence of pairs scipy\'s contract allows', 'heights': 'every non-decreasing sequence up to order type (zero heights and ties included)'}))
    for ch in range(3):
        mx = 3 if tier == 'quick' else 4
        jobs.append(dict(path=H, fname='_c17_cmd', params={'channel': ch, 'maxn': mx}, timeout=500 if tier == 'quick' else 1500, self_reach=True,
                         label=f'tree command, input via {["GENOMES", "-l", "-s"][ch]}',
                         bounds={'genomes': f'2..{mx} distinct genomes from a pool of 6 in every order (identical genomes, equidistant ones, a disjoint one)', 'channel': ['positional', 'list file', 'signature file'][ch]}))
    jobs.sort(key=lambda j: -j['timeout'])
    xprop.run_jobs(run, jobs, rung=tier)
    xprop.note_sources(run, ['src/gambit/cluster.py', 'src/gambit/cli/tree.py', 'src/gambit/metric.py'])
    run.bounds = {'linkage matrices': 'all contract-satisfying ones for 2..4 (quick) / 5 (thorough) leaves up to the order type of the heights', 'command': 'pool genomes, 2..3 (quick) / 4 (thorough) per run, all orders, 3 channels'}
    run.stubs = ['load_signatures / calc_file_signatures -> real signature collections chosen by name (no files read)', 'sys.stdout -> in-memory buffer']
    run.outside = ['scipy.cluster.hierarchy.linkage on matrices other than those of the pool', 'Newick rounding below 1e-5', 'labels that need Newick quoting beyond the pool']
    run.assumptions = ['"height" is scipy\'s linkage height (the average-linkage cluster distance); the oracle for the command is an independent UPGMA exploring every tie-breaking order']
    return run.finish(
        rule='one CrossHair condition per leaf count (linkage contract) and per input channel (whole command); non-trivial = confirmed over all cells',
        explanation='CrossHair-driven exhaustive case split: every merge order and height order type for linkage_to_bio_tree; the real tree command end to end on pool genomes, parsed back from Newick.')
