"""C13 - multi-file signature computation keeps file order under every completion order.  Engine X."""
from vlib.common import Run
from vlib import xprop

PID = 'C13'
H = '/verif/xh/h_c13.py'


def main(tier):
    run = Run(PID, tier)
    jobs = []
    sizes = (1, 2, 3, 4) if tier == 'quick' else (1, 2, 3, 4, 5)
    for n in sizes:
        for mode in range(4):
            for own in (0, 1):
                pooled = mode in (1, 2) or not own
                t = {1: 30, 2: 30, 3: 60, 4: 150, 5: 900}[n]
                jobs.append(dict(path=H, fname='_c13_order', params={'n': n, 'mode': mode, 'own': own}, timeout=t,
                                 twin='_c13_reach' if (n >= 2 and mode in (1, 2)) else None, twin_timeout=60,
                                 label=f'order n={n} concurrency={[None, "threads", "processes", "bogus"][mode]} {"own" if own else "caller"} executor',
                                 bounds={'files': n, 'completion orders': 'all permutations', 'failing file': 'none or any position', 'max_workers': '1..3'}))
    for smode in range(3):
        jobs.append(dict(path=H, fname='_c13_scale', params={'n': 1, 'smode': smode}, timeout=400, self_reach=True,
                         label=f'batch sizes up to 3000 files, concurrency={[None, "threads", "processes"][smode]}',
                         bounds={'files': [0, 1, 2, 7, 33, 100, 257, 513, 1025, 3000], 'completion orders': 'as submitted / reversed / interleaved from both ends / rotated',
                                 'failing file': 'none / first / middle / last', 'executor': 'own / caller-supplied', 'workers': 'stubbed (per-file tags)'}))
    for hmode in range(3):
        for b0 in range(8):
            jobs.append(dict(path=H, fname='_c13_history', params={'n': 1, 'hmode': hmode, 'b0': b0}, timeout=300, self_reach=True,
                             unblock=['open', 'os.mkdir', 'os.remove', 'shutil.rmtree', 'os.listdir', 'os.scandir', 'os.rmdir', '_thread.start_new_thread'],
                             label=f'histories of three batches on real files, {["sequential", "own thread pool", "caller-supplied thread pool"][hmode]}, first batch #{b0}',
                             bounds={'batches': '8 kinds (readable files in several orders, a gzip file that fails part-way, a missing file, an empty batch, two files whose contents were exchanged on disk since the last batch)', 'history length': 3,
                                     'mode': ['sequential', 'threads', 'caller-supplied ThreadPoolExecutor'][hmode], 'oracle': 'specs/kmers_spec.py on the contigs written to each file'}))
    jobs.sort(key=lambda j: -j['timeout'])
    xprop.run_jobs(run, jobs, rung=tier)
    xprop.note_sources(run, ['src/gambit/sigs/calc.py'])
    run.bounds = {'files': f'1..{sizes[-1]}', 'completion order': 'every permutation (symbolic)', 'failing file': 'none or each position',
                  'concurrency': [None, 'threads', 'processes', 'invalid'], 'executor': ['own', 'caller-supplied']}
    run.stubs = ['concurrent.futures.as_completed -> arbitrary permutation of the submitted futures', 'ThreadPoolExecutor/ProcessPoolExecutor -> recording stub executor',
                 'calc_file_signature -> returns a per-file tag or raises for the failing file (order conditions); no stubs in the history conditions (real files, parser, thread pools)']
    run.outside = ['the real thread/process pools, pickling across processes', 'more than 5 files']
    run.assumptions = ['CrossHair explores every feasible path of the harness within the per-condition timeout ("Confirmed over all paths")']
    return run.finish(
        rule='one CrossHair condition per (file count, concurrency mode, executor ownership); each quantifies over all completion permutations, failing positions and worker counts; '
             'non-trivial = confirmed with a reachability twin exhibiting a successful out-of-order completion',
        explanation='Symbolic execution (CrossHair/z3) of the real calc_file_signatures under a contract-level model of the executor.')
