"""Library models of engine K (the trusted base): builtins, bytes-like sequences, the numpy subset used by the
functions in scope.  Each model is a few lines and is validated differentially against the real library by
kbmc.validate at the start of every run."""
import ast
import builtins as _bi
import z3
import numpy as np

from .sym import *
from . import interp as I

W = PYINT_BITS


# ---------------------------------------------------------------------------------------- index arithmetic helpers

def idx_term(x):
    """int or z3 BV (32 or 64 bit, signed interpretation)."""
    if isinstance(x, (bool, np.bool_)):
        return int(x)
    if isinstance(x, (int, np.integer)):
        return int(x)
    if isinstance(x, SInt):
        return x.term
    if isinstance(x, CVal):
        if x.ctype.kind != 'int':
            raise CannotEncode('float index')
        if x.concrete:
            return x.term
        t = x.term
        if x.ctype.bits < 32:
            t = z3.SignExt(32 - x.ctype.bits, t) if x.ctype.signed else z3.ZeroExt(32 - x.ctype.bits, t)
        elif x.ctype.bits == 32 and not x.ctype.signed:
            t = z3.ZeroExt(32, t)
        return t
    raise CannotEncode(f'not an index: {x!r}')


def _unify(a, b):
    if isinstance(a, int) and isinstance(b, int):
        return a, b, None
    wa = a.size() if is_sym(a) else 0
    wb = b.size() if is_sym(b) else 0
    w = max(wa, wb, 32)
    def ext(t):
        if isinstance(t, int):
            return z3.BitVecVal(t, w)
        return z3.SignExt(w - t.size(), t) if t.size() < w else t
    return ext(a), ext(b), w


def iadd(a, b):
    a, b, w = _unify(a, b)
    if w is None:
        return a + b
    return a + b


def isub(a, b):
    a, b, w = _unify(a, b)
    if w is None:
        return a - b
    return a - b


def ilt(a, b):
    a, b, w = _unify(a, b)
    return (a < b) if w is None else simp_bool(a < b)


def ile(a, b):
    a, b, w = _unify(a, b)
    return (a <= b) if w is None else simp_bool(a <= b)


def ieq(a, b):
    a, b, w = _unify(a, b)
    return (a == b) if w is None else simp_bool(a == b)


def iite(c, a, b):
    if c is True:
        return a
    if c is False:
        return b
    a, b, w = _unify(a, b)
    if w is None:
        if a == b:
            return a
        a, b = z3.BitVecVal(a, 32), z3.BitVecVal(b, 32)
    return z3.If(c, a, b)


def to_pyint(t):
    """index term -> python-level int value (int or SInt)."""
    if isinstance(t, int):
        return t
    if t.size() != W:
        # 64-bit C values flowing into python ints: keep low bits (callers guarantee range by obligation)
        t = z3.Extract(W - 1, 0, t)
    return norm_sint(t)


# ---------------------------------------------------------------------------------------- modelled objects

class DenseBoolM:
    """np.zeros(n, dtype=bool) used as a set of indices."""
    def __init__(self, size):
        self.size = size
        self.inserts = []      # (guard, value, flag)


class DenseViewM:
    """arr[start:stop] of a dense boolean array (a view: writes go to the base).  start / stop are non-negative (the code in scope
    keeps index bounds there); numpy clamps them to the array size."""
    def __init__(self, base, start, stop):
        self.base, self.start, self.stop = base, start, stop


class SetM:
    def __init__(self):
        self.inserts = []


class NamespaceM:
    """threading.local() / types.SimpleNamespace(): a bag of attributes (one thread is modelled, so thread-local state is
    plain state that survives from one call to the next)."""
    def __init__(self, stubs=None, **fields):
        self.fields = dict(fields)
        self.stubs = dict(stubs or {})      # harness-supplied methods: name -> callable(interp, *args)


class BoolArrayM:
    """1-d boolean array: list of python bools / z3 Bools."""
    def __init__(self, bits):
        self.bits = bits


class IndexArrayM:
    """1-d integer array known only as 'the set S in some order'."""
    def __init__(self, inserts, dtype, is_sorted, unique, fits=True):
        self.inserts, self.dtype, self.is_sorted, self.unique = inserts, np.dtype(dtype), is_sorted, unique
        self.fits = fits


def val_bv64(v):
    if isinstance(v, CVal):
        if v.concrete:
            return z3.BitVecVal(v.term, 64)
        t = v.term
        if v.ctype.bits < 64:
            t = z3.SignExt(64 - v.ctype.bits, t) if v.ctype.signed else z3.ZeroExt(64 - v.ctype.bits, t)
        return t
    if isinstance(v, SInt):
        return z3.SignExt(64 - W, v.term)
    if isinstance(v, (int, np.integer)):
        return z3.BitVecVal(int(v), 64)
    raise CannotEncode(f'set element {v!r}')


def to_wide(v, w):
    """Mathematical value of an int-like as a signed w-bit term (w wider than every operand)."""
    if isinstance(v, (bool, np.bool_)):
        v = int(v)
    if isinstance(v, (int, np.integer)):
        return z3.BitVecVal(int(v), w)
    if isinstance(v, SInt):
        return z3.SignExt(w - v.term.size(), v.term)
    if isinstance(v, CVal):
        t = v.z3()
        return z3.SignExt(w - t.size(), t) if v.ctype.signed else z3.ZeroExt(w - t.size(), t)
    raise CannotEncode(f'not an integer: {v!r}')


def np_dtype(x):
    if isinstance(x, I.External) and x.mod == 'numpy':
        return np.dtype(getattr(np, x.attr))
    return np.dtype(x)


_NP_CT = {'u1': 'uint8_t', 'u2': 'uint16_t', 'u4': 'uint32_t', 'u8': 'uint64_t',
          'i1': 'int8_t', 'i2': 'int16_t', 'i4': 'int32_t', 'i8': 'int64_t'}


def dtype_ctype(dt):
    dt = np.dtype(dt)
    key = f'{dt.kind}{dt.itemsize}'
    if key in _NP_CT:
        return BASE_CTYPES[_NP_CT[key]]
    if dt.kind == 'f' and dt.itemsize == 4:
        return C_FLOAT
    if dt.kind == 'f' and dt.itemsize == 8:
        return C_DOUBLE
    raise CannotEncode(f'dtype {dt}')


class Models:
    def __init__(self, interp):
        self.ip = interp

    # ------------------------------------------------------------------ name resolution

    def builtin(self, name):
        if name in ('prange',):
            return I.External('cython.parallel', 'prange')
        if hasattr(_bi, name):
            return getattr(_bi, name)
        return UNSET

    def external(self, mod, attr):
        if mod == 'numpy' and attr is None:
            return I.External('numpy', None)
        return I.External(mod, attr)

    # ------------------------------------------------------------------ attributes

    def getattr(self, obj, attr):
        ip = self.ip
        if isinstance(obj, I.External):
            if obj.attr is None:
                # plain constants of standard-library modules are taken from the real module
                if obj.mod in ('zlib', 'gzip', 'io', 'os', 'sys', 'math', 'string'):
                    try:
                        import importlib
                        val = getattr(importlib.import_module(obj.mod), attr)
                        if isinstance(val, (int, float, str, bytes)) and not isinstance(val, bool):
                            return val
                    except Exception:     # noqa
                        pass
                return I.External(obj.mod, attr)
            return I.External(obj.mod, f'{obj.attr}.{attr}')
        if isinstance(obj, SymSeq):
            if attr == 'shape':
                ln = obj.length
                cap = len(obj.cells)
                if isinstance(ln, int):
                    return (CVal(ln, C_SSIZE),)
                return (CVal(z3.SignExt(64 - W, ln.term), C_SSIZE, ub=cap),)
            if attr == 'dtype' and obj.pytype == 'ndarray':
                return np.dtype(obj.dtype)
            if attr == 'ndim':
                return 1
            return I.ModelMethod(obj, attr)
        if isinstance(obj, (DenseBoolM, SetM, IndexArrayM, BoolArrayM)):
            if attr == 'dtype' and isinstance(obj, IndexArrayM):
                return obj.dtype
            return I.ModelMethod(obj, attr)
        if isinstance(obj, NamespaceM):
            if attr == '__dict__':
                return obj.fields
            if attr in obj.stubs:
                return I.ModelMethod(obj, attr)
            if attr in obj.fields:
                return obj.fields[attr]
            ip.raise_exc('AttributeError')
            return UNSET
        if isinstance(obj, I.SymSlice):
            return getattr(obj, attr)
        if isinstance(obj, np.dtype):
            if attr == 'type':
                return ('npscalar', obj)
            return getattr(obj, attr)
        if isinstance(obj, (bytes, bytearray, str, int, tuple, list, dict, slice, float)):
            v = getattr(obj, attr)
            if callable(v):
                return I.ModelMethod(obj, attr)
            return v
        raise CannotEncode(f'attribute {attr} of {type(obj).__name__}')

    def setattr(self, obj, attr, value, guard):
        if isinstance(obj, NamespaceM):
            if guard is True or attr in obj.fields:
                obj.fields[attr] = ite(guard, value, obj.fields.get(attr, UNSET))
                return
            raise CannotEncode('conditional creation of an attribute')
        raise CannotEncode(f'attribute assignment on {type(obj).__name__}')

    def truth(self, v):
        if isinstance(v, I.GuardedList):
            raise CannotEncode('truth of generator')
        return UNSET

    def binop(self, op, a, b):
        if isinstance(a, IndexArrayM) and isinstance(op, (ast.Add, ast.Sub)) and isinstance(b, (int, SInt, CVal, np.integer)):
            # element-wise shift by a scalar: order and distinctness are kept (no wrap-around: index values stay far below 2^63)
            return IndexArrayM([(g, self.ip.binop(op, v, b)) for g, v in a.inserts], a.dtype, a.is_sorted, a.unique, a.fits)
        if isinstance(a, SymSeq) or isinstance(b, SymSeq):
            if isinstance(op, ast.Add):
                pa = self.as_plain(a)
                pb = self.as_plain(b)
                return SymSeq(pa.plain_cells() + pb.plain_cells(), pa.elem, pa.pytype)
            raise CannotEncode('sequence arithmetic')
        return UNSET

    def compare(self, op, a, b):
        if isinstance(a, SymSeq) and a.pytype == 'ndarray' and isinstance(b, (int, SInt, CVal)):
            # numpy broadcasting: element-wise comparison with a scalar
            pc = a.plain_cells()
            if pc is None:
                raise CannotEncode('comparison of a symbolic-extent array')
            return BoolArrayM([self.ip.compare(op, CVal(c, a.elem), b) for c in pc])
        if isinstance(a, SymSeq) or isinstance(b, SymSeq):
            if isinstance(op, (ast.Eq, ast.NotEq)):
                r = self.seq_eq(a, b)
                return r if isinstance(op, ast.Eq) else lnot(r)
            raise CannotEncode('sequence ordering')
        return UNSET

    def as_plain(self, x):
        if isinstance(x, SymSeq):
            if x.plain_cells() is None:
                raise CannotEncode('symbolic-extent sequence where a plain one is needed')
            return x
        if isinstance(x, (bytes, bytearray)):
            return SymSeq(list(x), C_UCHAR, type(x).__name__)
        if isinstance(x, str):
            return SymSeq([ord(c) for c in x], C_UCHAR, 'str')
        raise CannotEncode(f'not a sequence: {x!r}')

    def seq_eq(self, a, b):
        if not isinstance(a, SymSeq) or not isinstance(b, SymSeq):
            a, b = self.as_plain(a), self.as_plain(b)
        # python: bytes == bytearray by content; str never equals bytes
        sa = a.pytype in ('str',)
        sb = b.pytype in ('str',)
        if sa != sb:
            return False
        la, lb = a.length, b.length
        if isinstance(la, int) and isinstance(lb, int) and isinstance(a.off, int) and isinstance(b.off, int):
            if la != lb:
                return False
            conds = []
            for x, y in zip(a.plain_cells(), b.plain_cells()):
                if not is_sym(x) and not is_sym(y):
                    if x != y:
                        return False
                    continue
                tx = x if is_sym(x) else z3.BitVecVal(x, a.elem.bits)
                ty = y if is_sym(y) else z3.BitVecVal(y, a.elem.bits)
                conds.append(tx == ty)
            return simp_bool(land(*conds))
        # general: lengths equal and all positions below the length equal
        cap = min(len(a.cells), len(b.cells))
        lta, ltb = idx_term(a.length if isinstance(a.length, int) else a.length), idx_term(b.length if isinstance(b.length, int) else b.length)
        conds = [ieq(lta, ltb)]
        for i in range(max(len(a.cells), len(b.cells))):
            inr = ilt(i, lta)
            if inr is False:
                break
            x = self.read_cell(a, iadd(idx_term(a.off), i))
            y = self.read_cell(b, iadd(idx_term(b.off), i))
            conds.append(lor(lnot(inr), self.cell_eq(x, y, a.elem.bits)))
        return simp_bool(land(*conds))

    def cell_eq(self, x, y, bits):
        if not is_sym(x) and not is_sym(y):
            return x == y
        tx = x if is_sym(x) else z3.BitVecVal(x, bits)
        ty = y if is_sym(y) else z3.BitVecVal(y, bits)
        return tx == ty

    # ------------------------------------------------------------------ cells

    def read_cell(self, seq, pos):
        """cell at absolute position pos (int or BV term); positions outside the cell list read as 0."""
        cells = seq.cells
        if isinstance(pos, int):
            return cells[pos] if 0 <= pos < len(cells) else 0
        bits = seq.elem.bits
        w = pos.size()
        acc = z3.BitVecVal(0, bits)
        for j in reversed(range(len(cells))):
            c = cells[j]
            acc = z3.If(pos == z3.BitVecVal(j, w), c if is_sym(c) else z3.BitVecVal(c, bits), acc)
        return acc

    def write_cell(self, seq, pos, val, guard):
        cells = seq.cells
        bits = seq.elem.bits
        if isinstance(pos, int):
            if 0 <= pos < len(cells):
                old = cells[pos]
                if guard is True:
                    cells[pos] = val
                else:
                    tv = val if is_sym(val) else z3.BitVecVal(val, bits)
                    to = old if is_sym(old) else z3.BitVecVal(old, bits)
                    cells[pos] = z3.If(guard, tv, to)
            return
        w = pos.size()
        tv = val if is_sym(val) else z3.BitVecVal(val, bits)
        for j in range(len(cells)):
            old = cells[j]
            to = old if is_sym(old) else z3.BitVecVal(old, bits)
            cells[j] = z3.If(land(guard, pos == z3.BitVecVal(j, w)), tv, to)

    # ------------------------------------------------------------------ subscripts

    def seq_getitem(self, seq, idx, c_context=False):
        ip = self.ip
        if isinstance(idx, I.SymSlice) or isinstance(idx, slice):
            return self.seq_slice(seq, idx, c_context)
        if isinstance(idx, MaybeNoneT):
            raise CannotEncode('Optional index')
        it = idx_term(idx)
        ln = idx_term(seq.length)
        g = ip.active()
        if c_context or seq.pytype in ('memview',):
            # boundscheck=False, wraparound=False: out-of-range access is undefined behaviour
            ok = land(ile(0, it), ilt(it, ln))
            ip.add_oblig('ub', f'out-of-bounds read of {seq.name or seq.pytype}', land(g, lnot(ok)))
            if ip.access_log is not None:
                ip.access_log.append(('r', seq, iadd(idx_term(seq.off), it), g))
            v = self.read_cell(seq, iadd(idx_term(seq.off), it))
            return norm_cval(v, seq.elem) if is_sym(v) else CVal(v, seq.elem)
        # python semantics
        neg = ilt(it, 0)
        it2 = iite(neg, iadd(it, ln), it)
        ok = land(ile(0, it2), ilt(it2, ln))
        ip.raise_exc('IndexError', lnot(ok))
        v = self.read_cell(seq, iadd(idx_term(seq.off), it2))
        if seq.pytype == 'ndarray':
            return norm_cval(v, seq.elem) if is_sym(v) else CVal(v, seq.elem)
        if seq.pytype in ('str', 'Seq'):
            raise CannotEncode('single-character indexing of str')
        if is_sym(v):
            return norm_sint(z3.ZeroExt(W - seq.elem.bits, v))
        return v

    def clamp_slice_bound(self, b, ln, default):
        """Python slice bound normalisation for step 1."""
        if b is None:
            return default
        t = idx_term(b)
        neg = ilt(t, 0)
        t2 = iite(neg, iadd(t, ln), t)
        t3 = iite(ilt(t2, 0), 0, t2)
        return iite(ilt(ln, t3), ln, t3)

    def seq_slice(self, seq, sl, c_context):
        ip = self.ip
        if isinstance(sl, slice):
            sl = I.SymSlice(sl.start, sl.stop, sl.step)
        if sl.step is not None and not (isinstance(sl.step, int) and sl.step == 1):
            raise CannotEncode('slice step')
        ln = idx_term(seq.length)
        if c_context or seq.pytype == 'memview':
            # Cython memoryview slicing with wraparound=False, boundscheck=False: no clamping; UB outside
            a = 0 if sl.start is None else idx_term(sl.start)
            b = ln if sl.stop is None else idx_term(sl.stop)
            g = ip.active()
            ok = land(ile(0, a), ile(a, b), ile(b, ln))
            ip.add_oblig('ub', f'memoryview slice of {seq.name or seq.pytype} outside its extent', land(g, lnot(ok)))
            start, stop = a, b
        else:
            start = self.clamp_slice_bound(sl.start, ln, 0)
            stop = self.clamp_slice_bound(sl.stop, ln, ln)
        length = isub(stop, start)
        length = iite(ilt(length, 0), 0, length)
        off = iadd(idx_term(seq.off), start)
        cap = len(seq.cells)
        def wrap(t):
            if isinstance(t, int):
                return t
            if t.size() != W:
                t = z3.Extract(W - 1, 0, t)
            return SInt(t, ub=cap)
        return SymSeq(seq.cells, seq.elem, seq.pytype, wrap(off), wrap(length), seq.writable, seq.name, seq.dtype)

    def seq_setitem(self, seq, idx, value, c_context=False):
        ip = self.ip
        if isinstance(idx, (I.SymSlice, slice)):
            raise CannotEncode('slice assignment')
        it = idx_term(idx)
        ln = idx_term(seq.length)
        g = ip.active()
        v = ip.to_ctype(value, seq.elem)
        if c_context or seq.pytype == 'memview':
            ok = land(ile(0, it), ilt(it, ln))
            ip.add_oblig('ub', f'out-of-bounds write to {seq.name or seq.pytype}', land(g, lnot(ok)))
            pos = iadd(idx_term(seq.off), it)
            if ip.access_log is not None:
                ip.access_log.append(('w', seq, pos, g))
            self.write_cell(seq, pos, v.term, g)
            return
        if not seq.writable:
            ip.raise_exc('TypeError')
        neg = ilt(it, 0)
        it2 = iite(neg, iadd(it, ln), it)
        ok = land(ile(0, it2), ilt(it2, ln))
        ip.raise_exc('IndexError', lnot(ok))
        self.write_cell(seq, iadd(idx_term(seq.off), it2), v.term, ip.active())

    def getitem(self, obj, idx):
        ip = self.ip
        if isinstance(obj, (tuple, list)):
            if isinstance(idx, (int, np.integer)):
                return obj[idx]
            if isinstance(idx, CVal) and idx.concrete:
                return obj[idx.term]
            raise CannotEncode('symbolic index into python list')
        if isinstance(obj, (bytes, bytearray, str)):
            if isinstance(idx, (int, slice)):
                return obj[idx]
            if isinstance(idx, I.SymSlice):
                if all(x is None or isinstance(x, int) for x in (idx.start, idx.stop, idx.step)):
                    return obj[slice(idx.start, idx.stop, idx.step)]
            return self.seq_getitem(self.as_plain(obj), idx)
        if isinstance(obj, dict):
            key = self.dict_key(idx)
            if key not in obj:
                ip.raise_exc('KeyError')
                return UNSET
            return obj[key]
        if isinstance(obj, DenseBoolM) and isinstance(idx, (I.SymSlice, slice)):
            if idx.step not in (None, 1):
                raise CannotEncode('strided slice of a boolean array')
            if idx.start is None and idx.stop is None:
                return obj
            return DenseViewM(obj, 0 if idx.start is None else idx.start, obj.size if idx.stop is None else idx.stop)
        if isinstance(obj, DenseBoolM):
            return self.dense_member(obj, idx)
        raise CannotEncode(f'subscript of {type(obj).__name__}')

    def setitem(self, obj, idx, value):
        ip = self.ip
        if isinstance(obj, DenseViewM):
            if not (isinstance(idx, (I.SymSlice, slice)) and all(x is None for x in (idx.start, idx.stop, idx.step))) or ip.truth(value) is not False:
                raise CannotEncode('store into a view of a boolean array other than view[:] = False')
            g = ip.active()
            new = []
            for gi, v, f in obj.base.inserts:
                inside = land(ip.truth(ip.compare(ast.LtE(), obj.start, v)), ip.truth(ip.compare(ast.Lt(), v, obj.stop)))
                gi2 = simp_bool(land(gi, lnot(land(g, inside))))
                if gi2 is not False:
                    new.append((gi2, v, f))
            obj.base.inserts = new
            return
        if isinstance(obj, DenseBoolM) and isinstance(idx, (I.SymSlice, slice)):
            # arr[:] = False: everything inserted so far is present afterwards only on paths that do not get here
            if not all(x is None for x in (idx.start, idx.stop, idx.step)):
                raise CannotEncode('partial slice assignment on a boolean array')
            tv = ip.truth(value)
            if tv is not False:
                raise CannotEncode('boolean array filled with a non-False value')
            g = ip.active()
            obj.inserts = [(simp_bool(land(gi, lnot(g))), v, f) for gi, v, f in obj.inserts]
            obj.inserts = [t for t in obj.inserts if t[0] is not False]
            return
        if isinstance(obj, DenseBoolM):
            g = ip.active()
            tv = ip.truth(value)
            v64 = val_bv64(idx)
            inb = simp_bool(z3.ULT(v64, z3.BitVecVal(obj.size, 64))) if obj.size < (1 << 64) else True
            if isinstance(idx, (int, SInt)) or (isinstance(idx, CVal) and idx.ctype.signed):
                # negative indices wrap in numpy; none of the code in scope relies on it
                pass
            ip.raise_exc('IndexError', lnot(inb))
            obj.inserts.append((ip.active(), idx, tv))
            return
        if isinstance(obj, list):
            if isinstance(idx, int) and ip.active() is True:
                obj[idx] = value
                return
        if isinstance(obj, dict):
            key = self.dict_key(idx)
            g = ip.active()
            if g is True or key in obj:
                obj[key] = ite(g, value, obj.get(key, UNSET))
                return
            raise CannotEncode('conditional creation of a dict entry')
        raise CannotEncode(f'subscript store on {type(obj).__name__}')

    def dict_key(self, idx):
        if isinstance(idx, CVal) and idx.concrete:
            return int(idx.term)
        if isinstance(idx, (SInt, CVal, SymSeq)) or is_sym(idx):
            raise CannotEncode('symbolic dict key')
        return idx

    def dense_member(self, obj, idx):
        v = val_bv64(idx)
        r = False
        for g, x, flag in obj.inserts:
            hit = land(g, val_bv64(x) == v)
            r = z3.If(hit, flag if is_sym(flag) else z3.BoolVal(flag), r if is_sym(r) else z3.BoolVal(r)) if hit is not False else r
        return simp_bool(r)

    # ------------------------------------------------------------------ containment / iteration

    def contains(self, container, item):
        ip = self.ip
        if isinstance(container, (bytes, bytearray)):
            if isinstance(item, (int, np.integer)):
                return int(item) in container
            if isinstance(item, SInt):
                return simp_bool(lor(*[item.term == z3.BitVecVal(c, W) for c in sorted(set(container))]))
            if isinstance(item, CVal):
                return simp_bool(lor(*[ip.compare(ast.Eq(), item, c) for c in sorted(set(container))]))
            if isinstance(item, (bytes, bytearray)):
                return item in container
            raise CannotEncode('containment of sequence in bytes')
        if isinstance(container, (tuple, list, set, frozenset, dict, range)):
            if isinstance(item, (SInt, CVal)):
                return simp_bool(lor(*[ip.compare(ast.Eq(), item, c) for c in container]))
            if is_sym(item):
                raise CannotEncode('symbolic containment')
            if any(isinstance(c, (SInt, CVal, SymSeq)) for c in container):
                return simp_bool(lor(*[ip.compare(ast.Eq(), item, c) for c in container]))
            return item in container
        if isinstance(container, str) and isinstance(item, str):
            return item in container
        if isinstance(container, SetM):
            v = val_bv64(item)
            return simp_bool(lor(*[land(g, val_bv64(x) == v) for g, x in container.inserts]))
        if isinstance(container, DenseBoolM):
            return self.dense_member(container, item)
        if isinstance(container, SymSeq) and container.plain_cells() is not None and isinstance(item, (int, SInt, CVal)):
            it = idx_term(item)
            conds = []
            for c in container.plain_cells():
                ct = c if not is_sym(c) else z3.ZeroExt((it.size() if is_sym(it) else 32) - container.elem.bits, c)
                conds.append(ieq(ct, it))
            return simp_bool(lor(*conds))
        raise CannotEncode(f'containment in {type(container).__name__}')

    def iterate(self, it, node):
        ip = self.ip
        if isinstance(it, I.GuardedList):
            return it.items
        if isinstance(it, (list, tuple)):
            return [(True, v) for v in it]
        if isinstance(it, range):
            return [(True, v) for v in it]
        if isinstance(it, (bytes, bytearray)):
            return [(True, v) for v in it]
        if isinstance(it, dict):
            return [(True, v) for v in it]
        if isinstance(it, SymRange):
            return it.items(ip, node)
        if isinstance(it, EnumerateM):
            inner = self.iterate(it.inner, node)
            return [(g, (it.start + i, v)) for i, (g, v) in enumerate(inner)]
        if isinstance(it, SymSeq):
            if it.pytype in ('str', 'Seq'):
                raise CannotEncode('iteration over str')
            out = []
            ln = it.length
            cap = len(it.cells)
            n = ln if isinstance(ln, int) else cap
            for i in range(n):
                g = True if isinstance(ln, int) else ilt(i, ln.term)
                if g is False:
                    break
                v = self.read_cell(it, iadd(idx_term(it.off), i))
                if it.pytype == 'ndarray':
                    val = norm_cval(v, it.elem) if is_sym(v) else CVal(v, it.elem)
                else:
                    val = norm_sint(z3.ZeroExt(W - it.elem.bits, v)) if is_sym(v) else v
                out.append((g, val))
            return out
        raise CannotEncode(f'iteration over {type(it).__name__}')

    # ------------------------------------------------------------------ calls

    def call(self, fn, args, kwargs):
        ip = self.ip
        if isinstance(fn, tuple) and fn and fn[0] == 'npscalar':
            return self.np_scalar(fn[1], args[0])
        if isinstance(fn, I.External):
            return self.call_external(fn, args, kwargs)
        if fn is len:
            (x,) = args
            if isinstance(x, PyChoice):
                res = UNSET
                for g, alt in reversed(x.alts):
                    r = self.call(len, [alt], {})
                    res = r if res is UNSET else ite(g, r, res)
                return res
            if isinstance(x, SymSeq):
                return x.length
            if isinstance(x, I.Instance):
                if '__len__' in x.stubs:
                    return x.stubs['__len__'](ip)
                m = x.cls.find_method(ip, '__len__')
                if m is None:
                    raise CannotEncode('len() of instance without __len__')
                return ip.call_function(m, [], {}, self_obj=x)
            if isinstance(x, DenseBoolM):
                return x.size
            if isinstance(x, (SetM, IndexArrayM, I.GuardedList, DenseViewM)):
                raise CannotEncode('len of modelled set')
            return len(x)
        if fn is range:
            if all(isinstance(a, (int, np.integer)) for a in args):
                return range(*[int(a) for a in args])
            if all(isinstance(a, CVal) and a.concrete for a in args):
                return range(*[a.term for a in args])
            if len(args) == 1:
                return SymRange(args[0])
            raise CannotEncode('range with symbolic start/step')
        if fn is enumerate:
            return EnumerateM(args[0], args[1] if len(args) > 1 else kwargs.get('start', 0))
        if fn is isinstance:
            return self.isinstance_(args[0], args[1])
        if fn is slice:
            a = list(args)
            if len(a) == 1:
                return I.SymSlice(None, a[0], None)
            while len(a) < 3:
                a.append(None)
            return I.SymSlice(*a)
        if fn is bytes or fn is bytearray:
            name = fn.__name__
            if not args:
                return SymSeq([], C_UCHAR, name)
            (x,) = args
            if isinstance(x, SymSeq):
                if x.pytype == 'str':
                    ip.raise_exc('TypeError')   # bytes(str) without encoding
                if name == 'bytearray' or x.writable:
                    return x.copy(name)         # fresh storage (needs a concrete extent)
                return x.retag('bytes', False)  # immutable source: sharing the cells is unobservable
            if isinstance(x, (int, np.integer)):
                return SymSeq([0] * int(x), C_UCHAR, name)
            if isinstance(x, CVal) and x.concrete:
                return SymSeq([0] * x.term, C_UCHAR, name)
            if isinstance(x, (bytes, bytearray)):
                return SymSeq(list(x), C_UCHAR, name)
            raise CannotEncode(f'{name}({x!r})')
        if fn is set:
            if args:
                raise CannotEncode('set(iterable)')
            return SetM()
        if fn is dict:
            if args and not (len(args) == 1 and isinstance(args[0], dict)):
                raise CannotEncode('dict(iterable)')
            d = dict(args[0]) if args else {}
            d.update(kwargs)
            return d
        if fn is int:
            (x,) = args
            if isinstance(x, (SInt, CVal)):
                return x
            return int(x)
        if fn is bool:
            return ip.truth(args[0])
        if fn is list:
            if not args:
                return []
            x = args[0]
            if isinstance(x, (list, tuple, range)):
                return list(x)
            items = self.iterate(x, None)
            if all(g is True for g, _ in items):
                return [v for _, v in items]
            raise CannotEncode('list() of guarded iterable')
        if fn is tuple:
            return tuple(self.call(list, args, kwargs))
        if fn is str:
            if args and isinstance(args[0], (int, str)):
                return str(args[0])
            return '<str>'
        if fn in (min, max) and all(isinstance(a, (int, float)) for a in args):
            return fn(*args)
        if fn is type:
            x = args[0]
            if isinstance(x, I.Instance):
                return x.cls
            return type(x)
        if isinstance(fn, type) and issubclass(fn, BaseException):
            return ('exception', fn.__name__)
        if fn is all or fn is any:
            (x,) = args
            vals = [ip.truth(v) for v in x]
            return simp_bool(land(*vals) if fn is all else lor(*vals))
        if fn is zip and all(isinstance(a, (list, tuple)) for a in args):
            return list(zip(*args))
        if fn is map:
            f, *its = args
            if all(isinstance(a, (list, tuple)) for a in its):
                return [ip.call(f, list(xs), {}) for xs in zip(*its)]
        raise CannotEncode(f'call of {fn!r}')

    def isinstance_(self, v, t):
        ip = self.ip
        if isinstance(t, tuple):
            return simp_bool(lor(*[self.isinstance_(v, x) for x in t]))
        if isinstance(v, SymSeq):
            tag = v.pytype
            if t is bytes:
                return tag == 'bytes'
            if t is bytearray:
                return tag == 'bytearray'
            if t is str:
                return tag == 'str'
            if isinstance(t, I.External) and t.attr == 'Seq':
                return tag == 'Seq'
            if isinstance(t, I.External) and t.mod == 'numpy' and t.attr == 'ndarray':
                return tag == 'ndarray'
            return False
        if isinstance(v, I.Instance):
            if isinstance(t, I.SrcClass):
                return v.cls.is_subclass(ip, t)
            return False
        if isinstance(v, (SInt,)):
            return t is int
        if isinstance(v, CVal):
            if t is int:
                return False      # numpy scalar / C value, not a python int
            if isinstance(t, I.External) and t.mod == 'numpy' and t.attr == 'integer':
                return v.ctype.kind == 'int'
            return False
        if isinstance(t, I.External):
            if t.mod == 'numpy' and t.attr == 'integer':
                return isinstance(v, np.integer)
            if t.mod == 'numpy' and t.attr == 'ndarray':
                return isinstance(v, np.ndarray)
            return False
        if isinstance(t, I.SrcClass):
            return False
        if isinstance(t, type):
            if isinstance(v, (list, tuple, int, bool, str, bytes, bytearray, float, dict, set, type(None), slice, range)):
                return isinstance(v, t)
            if isinstance(v, I.SymSlice):
                return t is slice
            return False
        raise CannotEncode(f'isinstance({v!r}, {t!r})')

    def np_scalar(self, dt, x):
        ip = self.ip
        ct = dtype_ctype(dt)
        if isinstance(x, CVal):
            # value-preserving iff it fits; numpy 1.26 wraps C-integer conversions silently
            r = ip.to_ctype(x, ct)
            return r
        if isinstance(x, (int, np.integer)):
            if not ct.lo <= int(x) <= ct.hi:
                ip.raise_exc('OverflowError')
            return CVal(int(x), ct)
        if isinstance(x, SInt):
            return ip.to_ctype(x, ct, from_python=True)
        raise CannotEncode(f'numpy scalar of {x!r}')

    def call_external(self, fn, args, kwargs):
        ip = self.ip
        key = (fn.mod, fn.attr)
        if key == ('cython.parallel', 'prange'):
            return self.call(range, args[:1], {})
        if key in (('threading', 'local'), ('types', 'SimpleNamespace')):
            o = NamespaceM()
            o.fields.update(kwargs)
            return o
        if fn.mod == 'numpy':
            a = fn.attr
            if a == 'dtype':
                return np.dtype(args[0])
            if a == 'zeros':
                n = args[0]
                dt = kwargs.get('dtype', args[1] if len(args) > 1 else float)
                if isinstance(n, CVal) and n.concrete:
                    n = n.term
                if not isinstance(n, (int, np.integer)):
                    raise CannotEncode('np.zeros of symbolic size')
                if dt is bool or dt == np.bool_ or (isinstance(dt, np.dtype) and dt.kind == 'b'):
                    return DenseBoolM(int(n))
                ct = dtype_ctype(dt)
                return SymSeq([0] * int(n), ct, 'ndarray', dtype=np.dtype(dt).str)
            if a == 'flatnonzero':
                (x,) = args
                if isinstance(x, DenseBoolM):
                    return IndexArrayM([(land(g, f), v) for g, v, f in x.inserts if f is not False] if all(f is True or is_sym(f) for _, _, f in x.inserts) else self._dense_cleared(x),
                                       np.intp, True, True)
                if isinstance(x, DenseViewM):
                    if not all(f is True or is_sym(f) for _, _, f in x.base.inserts):
                        self._dense_cleared(x.base)
                    ins = []
                    for g, v, f in x.base.inserts:
                        if f is False:
                            continue
                        inside = land(ip.truth(ip.compare(ast.LtE(), x.start, v)), ip.truth(ip.compare(ast.Lt(), v, x.stop)))
                        gi = simp_bool(land(g, f, inside))
                        if gi is not False:
                            ins.append((gi, ip.binop(ast.Sub(), v, x.start)))
                    return IndexArrayM(ins, np.intp, True, True)
                raise CannotEncode('flatnonzero')
            if a == 'fromiter':
                x = args[0]
                dt = kwargs.get('dtype', args[1] if len(args) > 1 else None)
                if isinstance(x, SetM):
                    ct = dtype_ctype(dt)
                    ins = []
                    for g, v in x.inserts:
                        ins.append((g, v))
                    return IndexArrayM(ins, dt, False, True)
                raise CannotEncode('fromiter')
            if a == 'add':
                return self.np_add(args, kwargs)
            if a in ('bool_', 'uint8', 'uint16', 'uint32', 'uint64', 'int8', 'int16', 'int32', 'int64', 'intp', 'float32'):
                return self.np_scalar(np.dtype(getattr(np, a)), args[0])
        raise CannotEncode(f'external call {fn!r}')

    def np_add(self, args, kwargs):
        """np.add(a, n, out=a, where=mask) on a 1-d integer array: element + n computed exactly, then cast to the dtype
        of `out` (same-kind casting wraps silently), written where the mask holds."""
        ip = self.ip
        if len(args) != 2 or set(kwargs) - {'out', 'where'} or 'out' not in kwargs:
            raise CannotEncode('np.add form not modelled')
        a, n = args
        out, where = kwargs['out'], kwargs.get('where', True)
        alts_a, alts_o = PyChoice.of(a), PyChoice.of(out)
        if len(alts_a) != len(alts_o) or any(x[1] is not y[1] for x, y in zip(alts_a, alts_o)):
            raise CannotEncode('np.add with out different from the first operand')
        g0 = ip.active()
        for g, seq in alts_o:
            if not isinstance(seq, SymSeq) or seq.pytype != 'ndarray' or seq.plain_cells() is None:
                raise CannotEncode('np.add on non-array')
            ct = seq.elem
            bits = where.bits if isinstance(where, BoolArrayM) else [where] * len(seq.cells)
            w = max(80, PYINT_BITS + 8)
            nt = to_wide(n, w)
            for k in range(len(seq.cells)):
                c = seq.cells[k]
                ct_ = c if is_sym(c) else z3.BitVecVal(c, ct.bits)
                wide = (z3.SignExt(w - ct.bits, ct_) if ct.signed else z3.ZeroExt(w - ct.bits, ct_)) + nt
                new = z3.Extract(ct.bits - 1, 0, wide)
                cond = land(g0, g, bits[k])
                if cond is False:
                    continue
                seq.cells[k] = new if cond is True else z3.If(cond, new, ct_)
        return out

    def _dense_cleared(self, x):
        raise CannotEncode('dense array with cleared entries')

    def call_method(self, obj, name, args, kwargs):
        ip = self.ip
        if isinstance(obj, (I.Instance, NamespaceM)) and name in obj.stubs:
            return obj.stubs[name](ip, *args, **kwargs)
        if isinstance(obj, BoolArrayM):
            if name == 'any':
                return simp_bool(lor(*obj.bits))
            if name == 'all':
                return simp_bool(land(*obj.bits))
            raise CannotEncode(f'bool array method {name}')
        if isinstance(obj, I.Instance) and name == '__attrs_init__':
            names = [n for n, _ in obj.cls.attribs]
            vals = dict(zip(names, args))
            vals.update(kwargs)
            for n in names:
                if n not in vals:
                    raise CannotEncode(f'__attrs_init__ missing {n}')
                obj.fields[n] = ite(ip.active(), vals[n], obj.fields.get(n, UNSET))
            return None
        if isinstance(obj, SymSeq):
            return self.seq_method(obj, name, args, kwargs)
        if isinstance(obj, SetM):
            if name == 'add':
                obj.inserts.append((ip.active(), args[0]))
                return None
            if name == 'clear':
                g = ip.active()
                obj.inserts = [(simp_bool(land(gi, lnot(g))), v) for gi, v in obj.inserts]
                obj.inserts = [t for t in obj.inserts if t[0] is not False]
                return None
            raise CannotEncode(f'set.{name}')
        if isinstance(obj, IndexArrayM):
            if name == 'astype':
                dt = np.dtype(args[0])
                ct = dtype_ctype(dt)
                fits = obj.fits
                return IndexArrayM(obj.inserts, dt, obj.is_sorted, obj.unique, fits)
            if name == 'sort':
                obj.is_sorted = simp_bool(lor(obj.is_sorted, ip.active()))
                return None
            if name == 'copy':
                return IndexArrayM(list(obj.inserts), obj.dtype, obj.is_sorted, obj.unique, obj.fits)
            raise CannotEncode(f'ndarray.{name}')
        if isinstance(obj, (bytes, bytearray, str)):
            if all(not isinstance(a, (SInt, CVal, SymSeq)) and not is_sym(a) for a in list(args) + list(kwargs.values())):
                if name in ('upper', 'lower', 'decode', 'encode', 'find', 'startswith', 'endswith', 'strip', 'rstrip', 'split', 'join', 'format', 'index', 'count'):
                    return getattr(obj, name)(*args, **kwargs)
            return self.seq_method(self.as_plain(obj), name, args, kwargs)
        if isinstance(obj, (list, dict, tuple)) and name in ('append', 'get', 'index', 'count', 'items', 'keys', 'values', 'setdefault', 'pop', 'extend', 'insert'):
            if ip.active() is not True and name in ('append', 'setdefault', 'pop', 'extend', 'insert'):
                raise CannotEncode(f'conditional mutation of python {type(obj).__name__}')
            return getattr(obj, name)(*args, **kwargs)
        raise CannotEncode(f'method {name} of {type(obj).__name__}')

    def seq_method(self, seq, name, args, kwargs):
        if name in ('any', 'all') and seq.pytype == 'ndarray' and not args and not kwargs:
            # truth of the elements inside the (possibly symbolic) extent
            conds = []
            ln = idx_term(seq.length) if not isinstance(seq.length, int) else seq.length
            off = seq.off if isinstance(seq.off, int) else None
            if off is None:
                raise CannotEncode('any()/all() on a view with symbolic offset')
            for k in range(len(seq.cells) - off):
                c = seq.cells[off + k]
                nz = (c != 0) if is_sym(c) else bool(c)
                inside = (k < ln) if isinstance(ln, int) else ilt(k, ln)
                conds.append(land(inside, nz) if name == 'any' else lor(lnot(inside), nz))
            return simp_bool(lor(*conds) if name == 'any' else land(*conds))
        ip = self.ip
        if name in ('reverse_complement', 'complement') and seq.pytype == 'Seq' and not args and not kwargs:
            # Biopython's own byte-translation table (taken from the installed library, so the model is what the real call does):
            # IUPAC complements, U/u -> A/a, every other byte unchanged
            from Bio.Seq import Seq as _Seq
            table = bytes(_Seq(bytes(range(256))).complement())
            pc = seq.plain_cells()
            if pc is None:
                raise CannotEncode(f'{name} of a symbolic-extent view')
            out = []
            for c in pc:
                if is_sym(c):
                    e = c
                    for b in range(256):
                        if table[b] != b:
                            e = z3.If(c == z3.BitVecVal(b, 8), z3.BitVecVal(table[b], 8), e)
                    out.append(e)
                else:
                    out.append(table[c])
            if name == 'reverse_complement':
                out.reverse()
            return SymSeq(out, seq.elem, 'Seq')
        if name in ('upper', 'lower'):
            pc = seq.plain_cells()
            if pc is None:
                raise CannotEncode('case change of symbolic-extent view')
            lo, hi, d = (97, 122, -32) if name == 'upper' else (65, 90, 32)
            out = []
            for c in pc:
                if is_sym(c):
                    out.append(z3.If(z3.And(z3.UGE(c, lo), z3.ULE(c, hi)), c + d, c))
                else:
                    out.append(c + d if lo <= c <= hi else c)
            return SymSeq(out, seq.elem, seq.pytype)
        if name in ('strip', 'lstrip', 'rstrip') and not args:
            pc = seq.plain_cells()
            if pc is None:
                raise CannotEncode(f'{name} on symbolic-extent view')
            # ASCII whitespace (bytes: 9-13, 32; str additionally 28-31; non-ASCII str is outside the documented domain)
            ws = (9, 10, 11, 12, 13, 32) + ((28, 29, 30, 31) if seq.pytype in ('str', 'Seq') else ())
            isws = [(lor(*[c == w for w in ws]) if is_sym(c) else c in ws) for c in pc]
            n = len(pc)
            alts = []
            for i in range(n + 1):            # i leading characters removed
                if name == 'rstrip' and i:
                    break
                lead = land(*isws[:i], lnot(isws[i]) if i < n else True)
                if i == n:
                    alts.append((simp_bool(lead), SymSeq([], seq.elem, seq.pytype)))
                    break
                for j in range(n - i):        # j trailing characters removed
                    if name == 'lstrip' and j:
                        break
                    trail = land(*isws[n - j:], lnot(isws[n - j - 1]))
                    if name == 'lstrip':
                        trail = True
                    if name == 'rstrip':
                        lead = True
                    c = simp_bool(land(lead, trail))
                    if c is not False:
                        alts.append((c, SymSeq(pc[i:n - j], seq.elem, seq.pytype)))
            if name == 'rstrip':
                alts.append((simp_bool(land(*isws)), SymSeq([], seq.elem, seq.pytype)))
            alts = [(c, v) for c, v in alts if c is not False]
            if len(alts) == 1 and alts[0][0] is True:
                return alts[0][1]
            return PyChoice(alts)
        if name in ('islower', 'isupper'):
            pc = seq.plain_cells()
            if pc is None:
                raise CannotEncode(f'{name} on symbolic-extent view')
            lo = lambda c: z3.And(z3.UGE(c, 97), z3.ULE(c, 122)) if is_sym(c) else 97 <= c <= 122
            up = lambda c: z3.And(z3.UGE(c, 65), z3.ULE(c, 90)) if is_sym(c) else 65 <= c <= 90
            want, other = (lo, up) if name == 'islower' else (up, lo)
            return simp_bool(land(lor(*[want(c) for c in pc]), *[lnot(other(c)) for c in pc]))
        if name == 'find':
            return self.seq_find(seq, *args, **kwargs)
        if name in ('endswith', 'startswith'):
            pc = seq.plain_cells()
            if pc is None:
                raise CannotEncode(f'{name} on symbolic-extent view')
            alts = args[0] if isinstance(args[0], tuple) else (args[0],)
            outs = []
            for suf in alts:
                sc = self.as_plain(suf).plain_cells()
                if len(sc) > len(pc):
                    outs.append(False)
                    continue
                part = pc[len(pc) - len(sc):] if name == 'endswith' else pc[:len(sc)]
                outs.append(land(*[self.cell_eq(x, y, seq.elem.bits) for x, y in zip(part, sc)]))
            return simp_bool(lor(*outs))
        if name == 'encode':
            if seq.pytype != 'str':
                raise CannotEncode('encode of non-str')
            if args and args[0] != 'ascii':
                raise CannotEncode('encode(non-ascii)')
            pc = seq.plain_cells()
            if pc is not None:
                bad = lor(*[(z3.UGE(c, 128) if is_sym(c) else c >= 128) for c in pc])
            else:
                # view of symbolic extent: only cells inside the view count
                off, ln = idx_term(seq.off), idx_term(seq.length)
                conds = []
                for j, c in enumerate(seq.cells):
                    inside = land(ile(off, j), ilt(j, iadd(off, ln)))
                    conds.append(land(inside, (z3.UGE(c, 128) if is_sym(c) else c >= 128)))
                bad = lor(*conds)
            ip.raise_exc('UnicodeEncodeError', simp_bool(bad))
            return seq.retag('bytes', False)
        if name == 'decode':
            return seq.retag('str', False)
        if name == 'copy':
            return seq.copy()
        if name == 'view':
            dt = np_dtype(args[0])
            ct = dtype_ctype(dt)
            if ct.bits != seq.elem.bits or seq.pytype != 'ndarray':
                raise CannotEncode('ndarray.view changing the item size')
            return SymSeq(seq.cells, ct, 'ndarray', seq.off, seq.length, seq.writable, seq.name, dt.str)
        if name == 'astype':
            dt = np_dtype(args[0])
            ct = dtype_ctype(dt)
            if kwargs.get('copy', True) is False and ct == seq.elem:
                return seq
            # element-wise C conversion (wraps when narrowing); a fresh buffer with the same extent
            out = [ip.to_ctype(CVal(c, seq.elem), ct).term for c in seq.cells]
            return SymSeq(out, ct, 'ndarray', seq.off, seq.length, True, seq.name, dt.str)
        if name == '__len__':
            return seq.length
        raise CannotEncode(f'sequence method {name}')

    def seq_find(self, hay, sub, start=None, end=None):
        """bytes.find(sub[, start[, end]]): least index j >= start' with hay[j:j+m] == sub and j+m <= end', else -1."""
        ip = self.ip
        hc = hay.plain_cells()
        if hc is None:
            raise CannotEncode('find on symbolic-extent view')
        sub = self.as_plain(sub)
        sc = sub.plain_cells()
        n, m = len(hc), len(sc)
        st = self.clamp_slice_bound(start, n, 0)
        en = self.clamp_slice_bound(end, n, n)
        bits = hay.elem.bits
        res = -1
        for j in reversed(range(0, n - m + 1)):
            conds = []
            dead = False
            for t in range(m):
                x, y = hc[j + t], sc[t]
                if not is_sym(x) and not is_sym(y):
                    if x != y:
                        dead = True
                        break
                    continue
                conds.append(self.cell_eq(x, y, bits))
            if dead:
                continue
            c = land(*conds, ile(st, j), ile(j + m, en))
            res = iite(simp_bool(c), j, res)
        if m == 0:
            raise CannotEncode('find of empty needle')
        return to_pyint(res)


class SymRange:
    def __init__(self, n):
        self.n = n

    def items(self, ip, node):
        n = self.n
        ub = getattr(n, 'ub', None)
        nt = idx_term(n)
        bound = ub if ub is not None else ip.max_unroll
        out = []
        for i in range(bound):
            g = ilt(i, nt)
            if g is False:
                break
            out.append((g, i))
        if ub is None:
            ip.add_oblig('unwind', f'range() loop at line {getattr(node, "lineno", "?")} needs more than {bound} iterations',
                         land(ip.active(), ilt(bound, nt)))
        return out


class EnumerateM:
    def __init__(self, inner, start=0):
        self.inner, self.start = inner, start


MaybeNoneT = I.MaybeNone
