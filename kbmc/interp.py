"""Engine K: guarded (CBMC-style) symbolic evaluation of the repository's own Python / Cython AST.

Every statement runs under an activity guard (conjunction of the enclosing branch conditions and the
negations of the return / break / continue / raise flags); assignments become ite(guard, new, old); an `if`
on a symbolic condition evaluates both arms; loops are unwound to a bound with an unwinding assertion.
With concrete inputs the same code is an ordinary (concrete) evaluator, which is what translator validation
and replay of `.pyx`-level counterexamples use.
"""
import ast
import os
import hashlib
import z3
import numpy as np

from .sym import *
from .sym import _i
from . import pyxfront

REPO = os.environ.get('VERIF_REPO', '/repo')

EXC_CODES = {'ValueError': 1, 'TypeError': 2, 'IndexError': 3, 'KeyError': 4, 'ZeroDivisionError': 5,
             'OverflowError': 6, 'AssertionError': 7, 'UnicodeEncodeError': 8, 'NotImplementedError': 9,
             'RuntimeError': 10, 'StopIteration': 11, 'AttributeError': 12, 'Exception': 99}
EXC_PARENTS = {'UnicodeEncodeError': 'ValueError', 'KeyError': 'LookupError', 'IndexError': 'LookupError',
               'NotImplementedError': 'RuntimeError'}
EXC_NAMES = {v: k for k, v in EXC_CODES.items()}


class _Abort(Exception):
    """Evaluation of the current statement cannot continue: an exception is raised on every active path."""


# ------------------------------------------------------------------------------------------------ source registry

class External:
    def __init__(self, mod, attr):
        self.mod, self.attr = mod, attr

    def __repr__(self):
        return f'<External {self.mod}:{self.attr}>'

    def __eq__(self, o):
        return isinstance(o, External) and (self.mod, self.attr) == (o.mod, o.attr)

    def __hash__(self):
        return hash((self.mod, self.attr))


class SrcFunction:
    def __init__(self, module, node, cls=None):
        self.module, self.node, self.cls = module, node, cls
        self.name = node.name
        self.is_cdef = node.name in module.cdef_funcs
        self.is_generator = any(isinstance(n, (ast.Yield, ast.YieldFrom)) for n in ast.walk(node))
        self.qualname = f'{module.name}.{cls.name + "." if cls else ""}{node.name}'
        self.decorators = [ast.unparse(d) for d in node.decorator_list]

    def __repr__(self):
        return f'<SrcFunction {self.qualname}>'

    def source_sha(self):
        seg = ast.get_source_segment(self.module.pysrc, self.node) or ast.dump(self.node)
        return hashlib.sha256(seg.encode()).hexdigest()[:16]


class SrcClass:
    def __init__(self, module, node):
        self.module, self.node, self.name = module, node, node.name
        self.methods = {}
        self.attribs = []       # attrs fields, in order
        self.class_consts = {}
        self.decorators = [ast.unparse(d) for d in node.decorator_list]
        self.attrs_opts = {}
        for d in node.decorator_list:
            if isinstance(d, ast.Call) and ast.unparse(d.func) in ('attrs', 'attr.s', 'attr.attrs', 'define'):
                self.attrs_opts = {k.arg: ast.literal_eval(k.value) for k in d.keywords}
                self.is_attrs = True
        self.is_attrs = any(x.startswith(('attrs', 'attr.s')) for x in self.decorators)
        for st in node.body:
            if isinstance(st, ast.FunctionDef):
                self.methods[st.name] = SrcFunction(module, st, self)
            elif isinstance(st, ast.AnnAssign) and isinstance(st.target, ast.Name):
                if st.value is not None and isinstance(st.value, ast.Call) and ast.unparse(st.value.func) in ('attrib', 'attr.ib'):
                    self.attribs.append((st.target.id, st.value))
                elif st.value is not None:
                    self.class_consts[st.target.id] = st.value
            elif isinstance(st, ast.Assign) and len(st.targets) == 1 and isinstance(st.targets[0], ast.Name):
                self.class_consts[st.targets[0].id] = st.value
        self._bases = None

    def bases(self, interp):
        if self._bases is None:
            out = []
            for b in self.node.bases:
                try:
                    v = interp.eval_in_module(self.module, b.value if isinstance(b, ast.Subscript) else b)
                except CannotEncode:
                    v = None
                if isinstance(v, SrcClass):
                    out.append(v)
            self._bases = out
        return self._bases

    def find_method(self, interp, name):
        if name in self.methods:
            return self.methods[name]
        for b in self.bases(interp):
            m = b.find_method(interp, name)
            if m is not None:
                return m
        return None

    def is_subclass(self, interp, other):
        if self is other:
            return True
        return any(b.is_subclass(interp, other) for b in self.bases(interp))

    def __repr__(self):
        return f'<SrcClass {self.module.name}.{self.name}>'


class Instance:
    def __init__(self, cls):
        self.cls = cls
        self.fields = {}
        self.stubs = {}        # harness-supplied implementations of abstract methods: name -> python callable(interp, *args)

    def __repr__(self):
        return f'<Instance {self.cls.name} {self.fields}>'


class BoundMethod:
    def __init__(self, inst, func):
        self.inst, self.func = inst, func


class ModelMethod:
    """Bound method of a modelled (non-source) object."""
    def __init__(self, obj, name):
        self.obj, self.name = obj, name


class Ref:
    """&var: pointer to a local C variable of another frame."""
    def __init__(self, frame, name):
        self.frame, self.name = frame, name


class SrcModule:
    def __init__(self, reg, name, path):
        self.reg, self.name, self.path = reg, name, path
        self.is_pyx = path.endswith('.pyx')
        text = open(path).read()
        self.text = text
        self.sha = hashlib.sha256(text.encode()).hexdigest()
        if self.is_pyx:
            self.pysrc, self.tree, self.cdef_funcs = pyxfront.pyx_to_python(text)
        else:
            self.pysrc, self.tree, self.cdef_funcs = text, ast.parse(text), set()
        self.defs = {}
        self.imports = {}
        self.assigns = {}
        self.cache = {}
        for st in self.tree.body:
            if isinstance(st, ast.FunctionDef):
                self.defs[st.name] = SrcFunction(self, st)
            elif isinstance(st, ast.ClassDef):
                self.defs[st.name] = SrcClass(self, st)
            elif isinstance(st, ast.Import):
                for a in st.names:
                    self.imports[a.asname or a.name.split('.')[0]] = (a.name if a.asname else a.name.split('.')[0], None)
            elif isinstance(st, ast.ImportFrom):
                mod = st.module or ''
                if st.level:
                    pkg = name.split('.')
                    pkg = pkg[:len(pkg) - st.level]
                    mod = '.'.join(pkg + ([mod] if mod else []))
                for a in st.names:
                    self.imports[a.asname or a.name] = (mod, a.name)
            elif isinstance(st, ast.Assign) and len(st.targets) == 1 and isinstance(st.targets[0], ast.Name):
                self.assigns[st.targets[0].id] = st.value
            elif isinstance(st, ast.AnnAssign) and isinstance(st.target, ast.Name) and st.value is not None:
                self.assigns[st.target.id] = st.value

    def __repr__(self):
        return f'<SrcModule {self.name}>'


class Registry:
    def __init__(self, repo=None):
        self.repo = repo or REPO
        self.modules = {}
        self.types = pyxfront.TypeTable()
        cy = os.path.join(self.repo, 'src/gambit/_cython')
        for f in sorted(os.listdir(cy)):
            if f.endswith('.pxd'):
                pyxfront.parse_pxd(open(os.path.join(cy, f)).read(), self.types)
        self.fused_binding = {}   # fused name -> member name, set by the harness per instantiation

    def module_path(self, name):
        if not (name == 'gambit' or name.startswith('gambit.')):
            return None
        base = os.path.join(self.repo, 'src', *name.split('.'))
        for cand in (base + '.py', base + '.pyx', os.path.join(base, '__init__.py')):
            if os.path.exists(cand):
                return cand
        return None

    def module(self, name):
        if name not in self.modules:
            p = self.module_path(name)
            if p is None:
                return None
            self.modules[name] = SrcModule(self, name, p)
        return self.modules[name]

    def ctype(self, name):
        name = name.strip()
        if name.startswith('const '):
            name = name[6:].strip()
        if name in self.types.fused:
            if name not in self.fused_binding:
                raise CannotEncode(f'fused type {name} not bound')
            name = self.fused_binding[name]
        return self.types.resolve(name)


# ------------------------------------------------------------------------------------------------ frames

class Loop:
    def __init__(self):
        self.broke = False
        self.cont = False


class Frame:
    def __init__(self, func, module):
        self.func, self.module = func, module
        self.vars = {}
        self.ctypes = {}      # declared C types of locals
        self.returned = False
        self.retval = UNSET
        self.loops = []
        self.yields = None
        self.is_pyx = module.is_pyx if module else False
        self.ret_ctype = None
        self.try_depth = 0


class GuardedList:
    """Result of a generator: list of (guard, value)."""
    def __init__(self, items):
        self.items = items


class SymSlice:
    def __init__(self, start, stop, step):
        self.start, self.stop, self.step = start, stop, step


# ------------------------------------------------------------------------------------------------ interpreter

class Interp:
    def __init__(self, registry=None, max_unroll=16, models=None):
        self.reg = registry or Registry()
        self.guards = []
        self.raised = False
        self.exc_code = 0            # python int or z3 BV8
        self.frames = []
        self.obligs = []             # (kind, description, violation condition)  -- must be unsat
        self.assumes = []
        self.max_unroll = max_unroll
        self.loop_bounds = {}        # (qualname, lineno) -> bound
        self.encoded = {}            # qualname -> sha
        self.access_log = None       # for read/write-set analyses: list of (kind, seq, index, guard)
        self.stats = {'stmts': 0, 'calls': 0}
        from . import models as _models
        self.models = _models.Models(self)
        self.call_depth = 0
        self.uncaught_codes = []
        self.float_src = {}          # id of an int->float conversion term -> the integer term
        self.cuts = {}               # function name -> (predicate(index, stmt, body) -> bool, [var names])
        self.cut_defs = []           # (function, var, fresh CVal, defining CVal, guard)

    # ---------------------------------------------------------------- guards

    @property
    def frame(self):
        return self.frames[-1]

    def active(self):
        f = self.frame
        parts = list(self.guards)
        parts.append(lnot(self.raised))
        parts.append(lnot(f.returned))
        for lp in f.loops:
            parts.append(lnot(lp.broke))
            parts.append(lnot(lp.cont))
        return land(*parts)

    def frame_flags(self):
        f = self.frame
        parts = [lnot(f.returned)]
        for lp in f.loops:
            parts.append(lnot(lp.broke))
            parts.append(lnot(lp.cont))
        return land(*parts)

    def add_oblig(self, kind, desc, viol):
        viol = simp_bool(viol) if not isinstance(viol, bool) else viol
        if viol is False:
            return
        self.obligs.append((kind, desc, viol))

    def raise_exc(self, name, guard=True):
        """Record that exception `name` is raised on the active paths satisfying guard."""
        g = land(self.active(), guard)
        g = simp_bool(g)
        if g is False:
            return
        code = EXC_CODES.get(name, 99)
        if g is True:
            self.raised = True
            self.exc_code = code
            raise _Abort()
        old = self.exc_code
        oldt = old if is_sym(old) else z3.BitVecVal(old, 8)
        self.exc_code = z3.If(g, z3.BitVecVal(code, 8), oldt)
        self.raised = lor(self.raised, g)

    # ---------------------------------------------------------------- module-level evaluation

    def eval_in_module(self, module, node):
        f = Frame(None, module)
        self.frames.append(f)
        try:
            return self.eval(node)
        finally:
            self.frames.pop()

    def lookup_module_name(self, module, name):
        if name in module.cache:
            return module.cache[name]
        v = self._lookup_module_name(module, name)
        module.cache[name] = v
        return v

    def _lookup_module_name(self, module, name):
        if name in module.defs:
            return module.defs[name]
        if name in module.assigns:
            return self.eval_in_module(module, module.assigns[name])
        if name in module.imports:
            mod, attr = module.imports[name]
            m = self.reg.module(mod)
            if attr is None:
                return m if m is not None else self.models.external(mod, None)
            if m is not None:
                # attribute may itself be a submodule
                sub = self.reg.module(mod + '.' + attr)
                if attr in m.defs or attr in m.assigns or attr in m.imports:
                    return self.lookup_module_name(m, attr)
                if sub is not None:
                    return sub
                raise CannotEncode(f'{mod} has no attribute {attr}')
            sub = self.reg.module(mod + '.' + attr) if mod else None
            if sub is not None:
                return sub
            return self.models.external(mod, attr)
        b = self.models.builtin(name)
        if b is not UNSET:
            return b
        raise CannotEncode(f'name {name!r} not found in module {module.name}')

    # ---------------------------------------------------------------- calling

    def call_function(self, func, args, kwargs, self_obj=None):
        """Inline a source function.  Returns its (merged) return value."""
        node = func.node
        self.encoded[func.qualname] = func.source_sha()
        self.stats['calls'] += 1
        if self.call_depth > 40:
            raise CannotEncode('call depth exceeded')
        fr = Frame(func, func.module)
        # bind parameters
        a = node.args
        if a.vararg:
            raise CannotEncode(f'*args in {func.qualname}')
        params = [p.arg for p in a.posonlyargs + a.args]
        annots = {p.arg: p.annotation for p in a.posonlyargs + a.args + a.kwonlyargs}
        allargs = list(args)
        if self_obj is not None:
            allargs = [self_obj] + allargs
        if len(allargs) > len(params):
            raise CannotEncode(f'too many arguments for {func.qualname}')
        bound = dict(zip(params, allargs))
        extra_kw = {}
        known = set(params) | {p.arg for p in a.kwonlyargs}
        for k, v in kwargs.items():
            if k in bound:
                raise CannotEncode(f'duplicate argument {k}')
            if k not in known:
                if a.kwarg is None:
                    raise CannotEncode(f'unexpected keyword {k} for {func.qualname}')
                extra_kw[k] = v
            else:
                bound[k] = v
        if a.kwarg is not None:
            bound[a.kwarg.arg] = extra_kw
        defaults = a.defaults
        for p, d in zip(params[len(params) - len(defaults):], defaults):
            if p not in bound:
                bound[p] = self.eval_in_module(func.module, d)
        for p, d in zip(a.kwonlyargs, a.kw_defaults):
            if p.arg not in bound:
                if d is None:
                    raise CannotEncode(f'missing kw-only arg {p.arg}')
                bound[p.arg] = self.eval_in_module(func.module, d)
        for p in params:
            if p not in bound:
                raise CannotEncode(f'missing argument {p} for {func.qualname}')
        fused_saved = {}
        if func.module.is_pyx:
            # fused-type dispatch on the element type of buffer arguments (def functions only; cdef functions
            # are instantiated by the caller's binding)
            for p, v in list(bound.items()):
                an = annots.get(p)
                if an is not None and isinstance(an, ast.Constant) and isinstance(an.value, str) and an.value.endswith('[:]'):
                    base = an.value[:-3].replace('const ', '').strip()
                    if base in self.reg.types.fused and isinstance(v, SymSeq):
                        members = self.reg.types.fused[base]
                        match = [m for m in members if self.reg.types.resolve(m) == v.elem]
                        if base not in fused_saved:
                            fused_saved[base] = self.reg.fused_binding.get(base)
                        if match:
                            self.reg.fused_binding[base] = match[0]
                        elif not func.is_cdef:
                            self.raise_exc('TypeError')
            for p, v in list(bound.items()):
                an = annots.get(p)
                if an is not None and isinstance(an, ast.Constant) and isinstance(an.value, str):
                    bound[p] = self.convert_param(v, an.value, fr, p, func)
            if node.returns is not None and isinstance(node.returns, ast.Constant) and isinstance(node.returns.value, str):
                rt = node.returns.value
                fr.ret_ctype = None if rt == 'void' else self.reg.ctype(rt)
        fr.vars.update(bound)
        if func.is_generator:
            fr.yields = []
        # the callee runs only where the caller is active: return/break/continue flags are per frame, so they are
        # handed down as a guard (branch guards and the raise flag are global already)
        cflags = self.frame_flags() if self.frames else True
        pushed_flags = cflags is not True
        if pushed_flags:
            self.guards.append(cflags)
        self.frames.append(fr)
        self.call_depth += 1
        try:
            try:
                cut = self.cuts.get(func.name)
                if cut is None:
                    self.exec_block(node.body)
                else:
                    ncut = 0
                    for i, st in enumerate(node.body):
                        if self.inactive():
                            break
                        if cut[0](i, st, node.body):
                            self.do_cut(func, cut[1])
                            ncut += 1
                        self.exec_stmt(st)
                    if ncut != 1:
                        raise CannotEncode(f'cut point in {func.qualname} matched {ncut} times (function restructured?)')
            except _Abort:
                pass
        finally:
            self.frames.pop()
            if pushed_flags:
                self.guards.pop()
            self.call_depth -= 1
            for k, v in fused_saved.items():
                if v is None:
                    self.reg.fused_binding.pop(k, None)
                else:
                    self.reg.fused_binding[k] = v
        if func.is_generator:
            return GuardedList(fr.yields)
        rv = fr.retval
        if rv is UNSET:
            rv = None
        elif fr.returned is not True and rv is not None and fr.ret_ctype is None and not _never_falls_through(node.body):
            rv = MaybeNone(fr.returned, rv)
        if self.raised is True:
            raise _Abort()
        return rv

    def do_cut(self, func, names):
        """Assume-guarantee cut: replace each C variable by a fresh symbol; record its defining term."""
        fr = self.frame
        for nm in names:
            ct = fr.ctypes.get(nm)
            old = fr.vars.get(nm, UNSET)
            if not isinstance(ct, CType) or old is UNSET or ct.kind != 'int':
                raise CannotEncode(f'cannot cut variable {nm} in {func.qualname}')
            fresh = CVal(z3.BitVec(f'cut_{func.name}_{nm}_{len(self.cut_defs)}', ct.bits), ct)
            self.cut_defs.append((func.name, nm, fresh, old, self.active()))
            fr.vars[nm] = fresh

    def active_outside(self):
        return land(*self.guards, lnot(self.raised))

    def convert_param(self, v, tname, fr, pname, func):
        tname = tname.strip()
        if tname.endswith('[:]'):
            ct = self.reg.ctype(tname[:-3])
            fr.ctypes[pname] = ('memview', ct)
            if isinstance(v, SymSeq):
                if v.pytype == 'str' or v.pytype == 'Seq':
                    self.raise_exc('TypeError')
                if v.elem.bits != ct.bits or (v.elem.kind != ct.kind):
                    self.raise_exc('ValueError')   # buffer dtype mismatch
                return v
            if isinstance(v, (bytes, bytearray)):
                return SymSeq(list(v), BASE_CTYPES['unsigned char'], type(v).__name__)
            raise CannotEncode(f'cannot pass {v!r} as memoryview')
        if tname.endswith('*'):
            fr.ctypes[pname] = ('ptr', self.reg.ctype(tname[:-1]))
            if not isinstance(v, Ref):
                raise CannotEncode('pointer argument must be &var')
            return v
        ct = self.reg.ctype(tname)
        fr.ctypes[pname] = ct
        return self.to_ctype(v, ct, from_python=not func.is_cdef)

    def call(self, fn, args, kwargs):
        if isinstance(fn, (SrcFunction, BoundMethod, SrcClass)) or (isinstance(fn, ModelMethod) and not isinstance(fn.obj, (Instance, PyChoice))):
            # an argument that is a guarded choice between objects: run the call once per alternative, each under its
            # guard, and merge the results
            for pos, a in enumerate(args):
                if isinstance(a, PyChoice):
                    res = UNSET
                    for g, alt in reversed(a.alts):
                        g = simp_bool(g)
                        if g is False:
                            continue
                        if g is not True:
                            self.guards.append(g)
                        try:
                            try:
                                r = self.call(fn, list(args[:pos]) + [alt] + list(args[pos + 1:]), dict(kwargs))
                            except _Abort:
                                r = UNSET
                        finally:
                            if g is not True:
                                self.guards.pop()
                        res = r if res is UNSET else (res if r is UNSET else ite(g, r, res))
                    if res is UNSET:
                        raise _Abort()
                    return res
        if isinstance(fn, SrcFunction):
            return self.call_function(fn, args, kwargs)
        if isinstance(fn, BoundMethod):
            return self.call_function(fn.func, args, kwargs, self_obj=fn.inst)
        if isinstance(fn, SrcClass):
            return self.instantiate(fn, args, kwargs)
        if isinstance(fn, ModelMethod):
            if isinstance(fn.obj, PyChoice):
                # distribute the method call over the alternatives, each under its own guard
                res = UNSET
                for g, alt in reversed(fn.obj.alts):
                    g = simp_bool(g)
                    if g is False:
                        continue
                    if g is not True:
                        self.guards.append(g)
                    try:
                        r = self.call(self.getattr(alt, fn.name), list(args), dict(kwargs))
                    finally:
                        if g is not True:
                            self.guards.pop()
                    res = r if res is UNSET else ite(g, r, res)
                if res is UNSET:
                    raise CannotEncode('method call on an empty choice')
                return res
            return self.models.call_method(fn.obj, fn.name, args, kwargs)
        return self.models.call(fn, args, kwargs)

    def instantiate(self, cls, args, kwargs):
        inst = Instance(cls)
        init = cls.find_method(self, '__init__')
        if cls.is_attrs and cls.attrs_opts.get('init', True) is not False and init is None:
            names = [n for n, _ in cls.attribs]
            if len(args) > len(names):
                raise CannotEncode('too many args for attrs class')
            for n, v in zip(names, args):
                inst.fields[n] = v
            for k, v in kwargs.items():
                inst.fields[k] = v
            for n, call in cls.attribs:
                if n not in inst.fields:
                    d = [k for k in call.keywords if k.arg == 'default']
                    if d:
                        inst.fields[n] = self.eval_in_module(cls.module, d[0].value)
                    else:
                        raise CannotEncode(f'missing attrs field {n}')
            return inst
        if init is None:
            if args or kwargs:
                raise CannotEncode(f'{cls.name}() takes no arguments')
            return inst
        self.call_function(init, args, kwargs, self_obj=inst)
        return inst

    # ---------------------------------------------------------------- statements

    def inactive(self):
        """Cheap syntactic test: is the current point certainly unreachable?"""
        f = self.frame
        if self.raised is True or f.returned is True:
            return True
        for lp in f.loops:
            if lp.broke is True or lp.cont is True:
                return True
        return any(g is False for g in self.guards)

    def exec_block(self, stmts):
        for st in stmts:
            if self.inactive():
                return
            self.exec_stmt(st)

    def exec_stmt(self, st):
        self.stats['stmts'] += 1
        m = getattr(self, 'st_' + type(st).__name__, None)
        if m is None:
            raise CannotEncode(f'statement {type(st).__name__} not supported (line {getattr(st, "lineno", "?")} of {self.frame.module.name})')
        try:
            m(st)
        except _Abort:
            if not self.inactive():
                raise

    def st_Pass(self, st):
        pass

    def st_Expr(self, st):
        if isinstance(st.value, ast.Constant):
            return
        self.eval(st.value)

    def st_Import(self, st):
        if self.frame.func is None:
            return
        for a in st.names:
            if a.asname is None and '.' in a.name:
                raise CannotEncode('dotted import inside a function')
            m = self.reg.module(a.name)
            self.assign_name(a.asname or a.name, m if m is not None else self.models.external(a.name, None), unconditional=True)

    def st_ImportFrom(self, st):
        pass

    def st_Assert(self, st):
        c = self.truth(self.eval(st.test))
        self.raise_exc('AssertionError', lnot(c))

    def assign_name(self, name, value, unconditional=False):
        fr = self.frame
        ct = fr.ctypes.get(name)
        if isinstance(ct, CType):
            value = self.to_ctype(value, ct)
        g = True if unconditional else self.active()
        old = fr.vars.get(name, UNSET)
        fr.vars[name] = ite(g, value, old)

    def assign_target(self, target, value, unconditional=False):
        if isinstance(target, ast.Name):
            self.assign_name(target.id, value, unconditional)
        elif isinstance(target, ast.Tuple):
            vals = self.unpack(value, len(target.elts))
            for t, v in zip(target.elts, vals):
                self.assign_target(t, v, unconditional)
        elif isinstance(target, ast.Attribute):
            obj = self.eval(target.value)
            if isinstance(obj, Instance):
                old = obj.fields.get(target.attr, UNSET)
                obj.fields[target.attr] = ite(True if unconditional else self.active(), value, old)
            else:
                self.models.setattr(obj, target.attr, value, self.active())
        elif isinstance(target, ast.Subscript):
            obj = self.eval(target.value)
            idx = self.eval_index(target.slice)
            self.store_subscript(obj, idx, value, target)
        else:
            raise CannotEncode(f'assignment target {type(target).__name__}')

    def unpack(self, value, n):
        if isinstance(value, (tuple, list)) and len(value) == n:
            return list(value)
        raise CannotEncode(f'cannot unpack {value!r}')

    def st_Assign(self, st):
        v = self.eval(st.value)
        for t in st.targets:
            self.assign_target(t, v)

    def st_AnnAssign(self, st):
        if not isinstance(st.target, ast.Name):
            raise CannotEncode('annotated assignment to non-name')
        fr = self.frame
        if fr.is_pyx and isinstance(st.annotation, ast.Constant) and isinstance(st.annotation.value, str):
            tname = st.annotation.value
            if tname.endswith('[:]') or tname.endswith('*'):
                raise CannotEncode(f'local of type {tname}')
            fr.ctypes[st.target.id] = self.reg.ctype(tname)
            if st.value is None:
                # uninitialised C local: arbitrary value is UB to read; model as UNSET
                fr.vars.setdefault(st.target.id, UNSET)
                return
        if st.value is not None:
            self.assign_name(st.target.id, self.eval(st.value))

    def st_AugAssign(self, st):
        cur = self.eval(_load(st.target))
        rhs = self.eval(st.value)
        v = self.binop(st.op, cur, rhs)
        self.assign_target(st.target, v)

    def st_Return(self, st):
        fr = self.frame
        v = None if st.value is None else self.eval(st.value)
        if fr.ret_ctype is not None:
            v = self.to_ctype(v, fr.ret_ctype)
        g = self.active()
        fr.retval = ite(g, v, fr.retval)
        if fr.try_depth == 0:
            # Outside any try block of this frame the paths on which an exception is pending can never become active
            # again in this frame, so "returned" may be recorded without the not-raised conjunct; this lets a
            # `return` reached on every non-raising path end the function syntactically.
            parts = list(self.guards) + [lnot(fr.returned)]
            for lp in fr.loops:
                parts += [lnot(lp.broke), lnot(lp.cont)]
            fr.returned = simp_bool(lor(fr.returned, land(*parts)))
        else:
            fr.returned = simp_bool(lor(fr.returned, g))

    def st_Break(self, st):
        lp = self.frame.loops[-1]
        lp.broke = simp_bool(lor(lp.broke, self.active()))

    def st_Continue(self, st):
        lp = self.frame.loops[-1]
        lp.cont = simp_bool(lor(lp.cont, self.active()))

    def st_Raise(self, st):
        if st.exc is None:
            raise CannotEncode('bare raise')
        e = st.exc
        name = None
        if isinstance(e, ast.Call):
            name = ast.unparse(e.func)
        elif isinstance(e, ast.Name):
            name = e.id
        if name is None:
            raise CannotEncode('raise of computed exception')
        name = name.split('.')[-1]
        self.raise_exc(name)

    def st_If(self, st):
        c = self.truth(self.eval(st.test))
        c = simp_bool(c)
        if c is True:
            self.exec_block(st.body)
        elif c is False:
            self.exec_block(st.orelse)
        else:
            self.guards.append(c)
            try:
                self.exec_block(st.body)
            finally:
                self.guards.pop()
            if st.orelse:
                self.guards.append(z3.Not(c))
                try:
                    self.exec_block(st.orelse)
                finally:
                    self.guards.pop()

    def loop_bound(self, st):
        key = (self.frame.func.qualname if self.frame.func else '?', st.lineno)
        for k, v in self.loop_bounds.items():
            if k == key or k == key[0] or k == (key[0].split('.')[-1]):
                return v
        return self.max_unroll

    def st_While(self, st):
        if st.orelse:
            raise CannotEncode('while-else')
        bound = self.loop_bound(st)
        lp = Loop()
        self.frame.loops.append(lp)
        npush = 0
        try:
            for it in range(bound + 1):
                lp.cont = False
                if self.inactive():
                    break
                c = simp_bool(self.truth(self.eval(st.test)))
                if c is False:
                    break
                if it == bound:
                    # unwinding assertion
                    self.add_oblig('unwind', f'while loop at {self.frame.module.name}:{st.lineno} needs more than {bound} iterations',
                                   land(self.active(), c))
                    break
                if c is not True:
                    self.guards.append(c)
                    npush += 1
                lp.cont = False
                self.exec_block(st.body)
            lp.cont = False
        finally:
            for _ in range(npush):
                self.guards.pop()
            self.frame.loops.pop()

    def st_For(self, st):
        if st.orelse:
            raise CannotEncode('for-else')
        it = self.eval(st.iter)
        items = self.models.iterate(it, st)
        lp = Loop()
        self.frame.loops.append(lp)
        try:
            for g, v in items:
                lp.cont = False
                if self.inactive():
                    break
                g = simp_bool(g)
                if g is False:
                    continue
                lp.cont = False
                if g is not True:
                    self.guards.append(g)
                try:
                    self.assign_target(st.target, v, unconditional=True)
                    self.exec_block(st.body)
                finally:
                    if g is not True:
                        self.guards.pop()
            lp.cont = False
        finally:
            self.frame.loops.pop()

    def st_With(self, st):
        exits = []
        for item in st.items:
            ctx = self.eval(item.context_expr)
            entered = self.call(self.getattr(ctx, '__enter__'), [], {})
            if item.optional_vars is not None:
                self.assign_target(item.optional_vars, entered)
            exits.append(ctx)
        try:
            self.exec_block(st.body)
        finally:
            # __exit__ runs on every path that entered (also the raising ones); it is called without the activity
            # guard of the body by temporarily lifting the raise flag
            saved = self.raised
            self.raised = False
            try:
                for ctx in reversed(exits):
                    self.call(self.getattr(ctx, '__exit__'), [None, None, None], {})
            except _Abort:
                pass
            self.raised = simp_bool(lor(saved, self.raised))

    def st_Try(self, st):
        if st.finalbody or st.orelse:
            raise CannotEncode('try/finally or try/else')
        pre = self.raised
        if pre is True:
            return
        self.frame.try_depth += 1
        try:
            self.exec_block(st.body)
        except _Abort:
            pass
        finally:
            self.frame.try_depth -= 1
        new = simp_bool(land(self.raised, lnot(pre)))
        if new is False:
            return
        code = self.exc_code
        unhandled = new
        for h in st.handlers:
            match = self.code_matches(code, self.handler_names(h))
            hg = simp_bool(land(unhandled, match))
            unhandled = simp_bool(land(unhandled, lnot(match)))
            if hg is False:
                continue
            if h.name:
                raise CannotEncode('except ... as name')
            # clear the exception on the handled paths, then run the handler on exactly those paths
            self.raised = simp_bool(land(self.raised, lnot(hg)))
            if hg is not True:
                self.guards.append(hg)
            try:
                try:
                    self.exec_block(h.body)
                except _Abort:
                    pass
            finally:
                if hg is not True:
                    self.guards.pop()
        if self.raised is True:
            raise _Abort()

    def handler_names(self, h):
        if h.type is None:
            return None
        if isinstance(h.type, ast.Tuple):
            return [ast.unparse(e).split('.')[-1] for e in h.type.elts]
        return [ast.unparse(h.type).split('.')[-1]]

    def code_matches(self, code, names):
        if names is None or 'Exception' in names or 'BaseException' in names:
            return True
        codes = set()
        for nm, c in EXC_CODES.items():
            x = nm
            while x is not None:
                if x in names:
                    codes.add(c)
                    break
                x = EXC_PARENTS.get(x)
        if not is_sym(code):
            return code in codes
        return lor(*[code == z3.BitVecVal(c, 8) for c in sorted(codes)])

    # ---------------------------------------------------------------- expressions

    def eval(self, node):
        m = getattr(self, 'ex_' + type(node).__name__, None)
        if m is None:
            raise CannotEncode(f'expression {type(node).__name__} not supported: {ast.unparse(node)[:80]}')
        return m(node)

    def ex_Constant(self, node):
        return node.value

    def ex_JoinedStr(self, node):
        parts = []
        for v in node.values:
            if isinstance(v, ast.Constant):
                parts.append(str(v.value))
            else:
                try:
                    x = self.eval(v.value)
                except CannotEncode:
                    return '<fstring>'
                if isinstance(x, (int, str, float)) and not isinstance(x, bool) and v.format_spec is None and v.conversion == -1:
                    parts.append(str(x))
                else:
                    return '<fstring>'
        return ''.join(parts)

    def ex_Name(self, node):
        name = node.id
        for fr in (self.frame,):
            if name in fr.vars:
                v = fr.vars[name]
                if v is UNSET:
                    raise CannotEncode(f'read of unset variable {name}')
                return v
        return self.lookup_module_name(self.frame.module, name)

    def ex_Tuple(self, node):
        return tuple(self.eval(e) for e in node.elts)

    def ex_List(self, node):
        return [self.eval(e) for e in node.elts]

    def ex_Attribute(self, node):
        obj = self.eval(node.value)
        return self.getattr(obj, node.attr)

    def getattr(self, obj, attr):
        if isinstance(obj, MaybeNone):
            raise CannotEncode('attribute of Optional value')
        if isinstance(obj, PyChoice):
            vals = [(g, self.getattr(alt, attr)) for g, alt in obj.alts]
            if all(isinstance(v, (ModelMethod, BoundMethod)) for _, v in vals):
                return ModelMethod(obj, attr)
            res = UNSET
            for g, v in reversed(vals):
                res = v if res is UNSET else ite(g, v, res)
            return res
        if isinstance(obj, Instance):
            if attr in obj.fields:
                v = obj.fields[attr]
                if v is UNSET:
                    raise CannotEncode(f'unset field {attr}')
                return v
            if attr == '__attrs_init__' and obj.cls.is_attrs:
                return ModelMethod(obj, '__attrs_init__')
            if attr in obj.stubs:
                return ModelMethod(obj, attr)
            m = obj.cls.find_method(self, attr)
            if m is not None:
                if any(d in ('property',) for d in m.decorators):
                    return self.call_function(m, [], {}, self_obj=obj)
                return BoundMethod(obj, m)
            c = obj.cls
            stack = [c]
            while stack:
                c = stack.pop()
                if attr in c.class_consts:
                    return self.eval_in_module(c.module, c.class_consts[attr])
                stack.extend(c.bases(self))
            raise CannotEncode(f'{obj.cls.name} has no attribute {attr}')
        if isinstance(obj, SrcModule):
            return self.lookup_module_name(obj, attr)
        if isinstance(obj, SrcClass):
            m = obj.find_method(self, attr)
            if m is not None:
                return m
            if attr in obj.class_consts:
                return self.eval_in_module(obj.module, obj.class_consts[attr])
            raise CannotEncode(f'class {obj.name} has no attribute {attr}')
        return self.models.getattr(obj, attr)

    def ex_Call(self, node):
        # intrinsics introduced by the Cython front-end
        if isinstance(node.func, ast.Name):
            if node.func.id == '__cast__':
                ct = self.reg.ctype(node.args[0].value)
                return self.to_ctype(self.eval(node.args[1]), ct, explicit=True)
            if node.func.id == '__addr__':
                return Ref(self.frame, node.args[0].id)
        fn = self.eval(node.func)
        args = []
        for a in node.args:
            if isinstance(a, ast.Starred):
                v = self.eval(a.value)
                if not isinstance(v, (list, tuple)):
                    raise CannotEncode('star-arg of non-sequence')
                args.extend(v)
            else:
                args.append(self.eval(a))
        kwargs = {}
        for k in node.keywords:
            if k.arg is None:
                d = self.eval(k.value)
                if not isinstance(d, dict):
                    raise CannotEncode('**kwargs of non-dict')
                kwargs.update(d)
                continue
            kwargs[k.arg] = self.eval(k.value)
        return self.call(fn, args, kwargs)

    def ex_IfExp(self, node):
        c = simp_bool(self.truth(self.eval(node.test)))
        if c is True:
            return self.eval(node.body)
        if c is False:
            return self.eval(node.orelse)
        self.guards.append(c)
        try:
            a = self.eval(node.body)
        finally:
            self.guards.pop()
        self.guards.append(z3.Not(c))
        try:
            b = self.eval(node.orelse)
        finally:
            self.guards.pop()
        return ite(c, a, b)

    def ex_BoolOp(self, node):
        # short-circuit semantics; operands are truth-tested (value-returning and/or is not needed here)
        is_and = isinstance(node.op, ast.And)
        acc = True if is_and else False
        npush = 0
        try:
            for e in node.values:
                v = simp_bool(self.truth(self.eval(e)))
                if is_and:
                    acc = simp_bool(land(acc, v))
                    if acc is False:
                        return False
                    if v is not True:
                        self.guards.append(v)
                        npush += 1
                else:
                    acc = simp_bool(lor(acc, v))
                    if acc is True:
                        return True
                    if v is not False:
                        self.guards.append(lnot(v))
                        npush += 1
            return acc
        finally:
            for _ in range(npush):
                self.guards.pop()

    def ex_UnaryOp(self, node):
        v = self.eval(node.operand)
        if isinstance(node.op, ast.Not):
            return lnot(simp_bool(self.truth(v)))
        if isinstance(node.op, ast.USub):
            return self.binop(ast.Sub(), 0, v)
        if isinstance(node.op, ast.UAdd):
            return v
        if isinstance(node.op, ast.Invert):
            return self.binop(ast.BitXor(), v, -1)
        raise CannotEncode('unary op')

    def ex_BinOp(self, node):
        return self.binop(node.op, self.eval(node.left), self.eval(node.right))

    def ex_Compare(self, node):
        left = self.eval(node.left)
        res = True
        for op, rn in zip(node.ops, node.comparators):
            right = self.eval(rn)
            r = self.compare(op, left, right)
            if not isinstance(r, (bool,)) and not is_sym(r):
                if len(node.ops) != 1:
                    raise CannotEncode('chained comparison of arrays')
                return r          # element-wise result (numpy array comparison)
            res = land(res, r)
            left = right
        return simp_bool(res)

    def ex_Subscript(self, node):
        obj = self.eval(node.value)
        idx = self.eval_index(node.slice)
        return self.load_subscript(obj, idx, node)

    def eval_index(self, sl):
        if isinstance(sl, ast.Slice):
            return SymSlice(None if sl.lower is None else self.eval(sl.lower),
                            None if sl.upper is None else self.eval(sl.upper),
                            None if sl.step is None else self.eval(sl.step))
        return self.eval(sl)

    def ex_Slice(self, node):
        return self.eval_index(node)

    def ex_Yield(self, node):
        fr = self.frame
        v = None if node.value is None else self.eval(node.value)
        fr.yields.append((self.active(), v))
        return None

    def ex_Lambda(self, node):
        raise CannotEncode('lambda')

    def ex_ListComp(self, node):
        if len(node.generators) != 1 or node.generators[0].is_async:
            raise CannotEncode('complex comprehension')
        gen = node.generators[0]
        it = self.eval(gen.iter)
        out = []
        guarded = False
        fr = self.frame
        for g, v in self.models.iterate(it, node):
            saved = dict(fr.vars)
            self.assign_target(gen.target, v, unconditional=True)
            keep = g
            for cond in gen.ifs:
                keep = simp_bool(land(keep, self.truth(self.eval(cond))))
            if keep is not False:
                out.append((keep, self.eval(node.elt)))
                guarded = guarded or keep is not True
            fr.vars = saved
        if guarded:
            # elements present only under a condition (a filter on symbolic data, or a guarded source): a guarded list, which
            # loops and the set/array models can consume
            return GuardedList(out)
        return [v for _, v in out]

    ex_GeneratorExp = ex_ListComp

    # ---------------------------------------------------------------- typing / arithmetic

    def truth(self, v):
        if isinstance(v, MaybeNone):
            return land(v.present, self.truth(v.value))
        if isinstance(v, PyChoice):
            return lor(*[land(g, self.truth(x)) for g, x in v.alts])
        if isinstance(v, (bool, np.bool_)):
            return bool(v)
        if v is None:
            return False
        if isinstance(v, (int, np.integer, float)):
            return v != 0
        if is_sym(v) and z3.is_bool(v):
            return v
        if isinstance(v, SInt):
            return v.term != 0
        if isinstance(v, CVal):
            if v.ctype.kind == 'float':
                raise CannotEncode('truth of float')
            if v.concrete:
                return v.term != 0
            return v.term != 0
        if isinstance(v, (str, bytes, tuple, list, dict, set)):
            return len(v) > 0
        if isinstance(v, SymSeq):
            ln = v.length
            return ln != 0 if isinstance(ln, int) else ln.term != 0
        t = self.models.truth(v)
        if t is not UNSET:
            return t
        return True

    def to_ctype(self, v, ct, explicit=False, from_python=False):
        """C conversion of v to ct."""
        if isinstance(v, MaybeNone):
            raise CannotEncode('Optional to C type')
        if isinstance(v, CVal):
            if v.ctype == ct:
                return CVal(v.term, ct) if v.ctype is not ct else v
            if ct.kind == 'int':
                if v.ctype.kind == 'float':
                    raise CannotEncode('float to int conversion')
                if v.concrete:
                    return CVal(v.term, ct)
                t = v.term
                if ct.bits == v.ctype.bits:
                    return CVal(t, ct, v.ub)
                if ct.bits < v.ctype.bits:
                    t = z3.Extract(ct.bits - 1, 0, t)
                elif ct.bits > v.ctype.bits:
                    t = z3.SignExt(ct.bits - v.ctype.bits, t) if v.ctype.signed else z3.ZeroExt(ct.bits - v.ctype.bits, t)
                r = norm_cval(t, ct)
                r.ub = v.ub
                return r
            # to float
            if v.ctype.kind == 'float':
                if v.ctype.bits == ct.bits:
                    return v
                if v.concrete:
                    return CVal(np.float32(v.term) if ct.bits == 32 else float(v.term), ct)
                return CVal(z3.fpFPToFP(RNE, v.term, fp_sort(ct)), ct)
            if v.concrete:
                return CVal(np.float32(v.term) if ct.bits == 32 else float(v.term), ct)
            r = CVal(z3.fpSignedToFP(RNE, v.term, fp_sort(ct)) if v.ctype.signed else z3.fpUnsignedToFP(RNE, v.term, fp_sort(ct)), ct)
            self.float_src[r.term.get_id()] = v.term
            return r
        if isinstance(v, (bool, np.bool_)):
            v = int(v)
        if isinstance(v, (int, np.integer)):
            v = int(v)
            if ct.kind == 'int':
                if from_python and not ct.lo <= v <= ct.hi:
                    self.raise_exc('OverflowError')
                return CVal(v, ct)
            return CVal(np.float32(v) if ct.bits == 32 else float(v), ct)
        if isinstance(v, float):
            if ct.kind == 'float':
                return CVal(np.float32(v) if ct.bits == 32 else v, ct)
            raise CannotEncode('float to C int')
        if isinstance(v, str) and len(v) == 1 and ct.kind == 'int':
            return CVal(ord(v), ct)
        if isinstance(v, bytes) and len(v) == 1 and ct.kind == 'int':
            return CVal(v[0], ct)
        if is_sym(v) and z3.is_bool(v):
            if ct.kind != 'int':
                raise CannotEncode('bool to float')
            return norm_cval(z3.If(v, z3.BitVecVal(1, ct.bits), z3.BitVecVal(0, ct.bits)), ct)
        if isinstance(v, SInt):
            if ct.kind == 'int':
                t = v.term
                if ct.bits < PYINT_BITS:
                    if from_python:
                        fits = z3.And(t >= ct.lo, t <= ct.hi)
                        self.raise_exc('OverflowError', z3.Not(fits))
                    t = z3.Extract(ct.bits - 1, 0, t)
                elif ct.bits > PYINT_BITS:
                    if from_python and not ct.signed:
                        self.raise_exc('OverflowError', t < 0)
                    t = z3.SignExt(ct.bits - PYINT_BITS, t)
                elif from_python and not ct.signed:
                    self.raise_exc('OverflowError', t < 0)
                r = norm_cval(t, ct)
                return r
            return CVal(z3.fpSignedToFP(RNE, v.term, fp_sort(ct)), ct)
        raise CannotEncode(f'cannot convert {v!r} to C type {ct.name}')

    def c_promote(self, ct):
        if ct.kind == 'int' and ct.bits < 32:
            return C_INT
        if ct.name == 'bint':
            return C_INT
        return ct

    def c_common(self, a, b):
        """Usual arithmetic conversions."""
        if a.kind == 'float' or b.kind == 'float':
            bits = max(a.bits if a.kind == 'float' else 0, b.bits if b.kind == 'float' else 0)
            return C_FLOAT if bits == 32 else C_DOUBLE
        a, b = self.c_promote(a), self.c_promote(b)
        if a == b:
            return a
        if a.signed == b.signed:
            return a if a.bits >= b.bits else b
        u, s = (a, b) if not a.signed else (b, a)
        if u.bits >= s.bits:
            return u
        return s   # signed type can represent all values of the narrower unsigned type

    def lit_ctype(self, v):
        """C type of a Python int literal in C context."""
        if -(1 << 31) <= v < (1 << 31):
            return C_INT
        if -(1 << 63) <= v < (1 << 63):
            return C_LONG
        return BASE_CTYPES['unsigned long']

    def as_c_operand(self, v):
        if isinstance(v, CVal):
            return v
        if isinstance(v, (bool, np.bool_)):
            return CVal(int(v), C_INT)
        if isinstance(v, (int, np.integer)):
            return CVal(int(v), self.lit_ctype(int(v)))
        if isinstance(v, float):
            return CVal(v, C_DOUBLE)
        if isinstance(v, str) and len(v) == 1:
            return CVal(ord(v), BASE_CTYPES['char'])
        if isinstance(v, SInt):
            return self.to_ctype(v, C_LONG)
        if is_sym(v) and z3.is_bool(v):
            return self.to_ctype(v, C_INT)
        raise CannotEncode(f'not a C operand: {v!r}')

    def binop(self, op, a, b):
        if isinstance(a, MaybeNone) or isinstance(b, MaybeNone):
            raise CannotEncode('arithmetic on Optional')
        from .models import IndexArrayM as _IA
        if isinstance(a, _IA) or isinstance(b, _IA):
            r = self.models.binop(op, a, b)
            if r is UNSET:
                raise CannotEncode('arithmetic on an index array')
            return r
        if isinstance(a, CVal) or isinstance(b, CVal):
            return self.c_binop(op, self.as_c_operand(a), self.as_c_operand(b))
        if isinstance(a, SInt) or isinstance(b, SInt) or (is_sym(a) and z3.is_bool(a)) or (is_sym(b) and z3.is_bool(b)):
            return self.sint_binop(op, a, b)
        r = self.models.binop(op, a, b)
        if r is not UNSET:
            return r
        return _PY_BINOPS[type(op)](a, b)

    def sint_binop(self, op, a, b):
        def tz(x):
            if is_sym(x) and z3.is_bool(x):
                return z3.If(x, sint_z3(1), sint_z3(0))
            return sint_z3(x)
        ta, tb = tz(a), tz(b)
        g = self.active()
        if isinstance(op, ast.Add):
            self.add_oblig('pyint-overflow', 'python int addition leaves the 32-bit encoding',
                           land(g, lnot(land(z3.BVAddNoOverflow(ta, tb, True), z3.BVAddNoUnderflow(ta, tb)))))
            return norm_sint(ta + tb)
        if isinstance(op, ast.Sub):
            self.add_oblig('pyint-overflow', 'python int subtraction leaves the 32-bit encoding',
                           land(g, lnot(land(z3.BVSubNoOverflow(ta, tb), z3.BVSubNoUnderflow(ta, tb, True)))))
            return norm_sint(ta - tb)
        if isinstance(op, ast.Mult):
            self.add_oblig('pyint-overflow', 'python int multiplication leaves the 32-bit encoding',
                           land(g, lnot(land(z3.BVMulNoOverflow(ta, tb, True), z3.BVMulNoUnderflow(ta, tb)))))
            return norm_sint(ta * tb)
        if isinstance(op, ast.FloorDiv) and isinstance(b, int) and b > 0:
            # floor division by positive constant
            q = z3.If(ta >= 0, ta / tb, -((-ta + (b - 1)) / tb))
            return norm_sint(q)
        if isinstance(op, ast.Mod) and isinstance(b, int) and b > 0:
            r = z3.SRem(ta, tb)
            return norm_sint(z3.If(r < 0, r + tb, r))
        raise CannotEncode(f'symbolic python int op {type(op).__name__}')

    def c_binop(self, op, a, b):
        if isinstance(op, (ast.LShift, ast.RShift)):
            ct = self.c_promote(a.ctype)
            a2, b2 = self.to_ctype(a, ct), self.to_ctype(b, ct)
        else:
            ct = self.c_common(a.ctype, b.ctype)
            a2, b2 = self.to_ctype(a, ct), self.to_ctype(b, ct)
        if ct.kind == 'float':
            if isinstance(op, ast.Div):
                # Cython (cdivision=False) raises ZeroDivisionError for a zero divisor
                if a2.concrete and b2.concrete:
                    if float(b2.term) == 0:
                        self.raise_exc('ZeroDivisionError')
                    f = np.float32 if ct.bits == 32 else float
                    with np.errstate(all='ignore'):
                        return CVal(f(a2.term) / f(b2.term), ct)
                src = self.float_src.get(b2.z3().get_id()) if is_sym(b2.term) else None
                # an int->float conversion is zero exactly when the int is zero
                self.raise_exc('ZeroDivisionError', (src == 0) if src is not None else z3.fpIsZero(b2.z3()))
                return CVal(z3.fpDiv(RNE, a2.z3(), b2.z3()), ct)
            fop = {ast.Add: (z3.fpAdd, lambda x, y: x + y), ast.Sub: (z3.fpSub, lambda x, y: x - y),
                   ast.Mult: (z3.fpMul, lambda x, y: x * y)}.get(type(op))
            if fop is None:
                raise CannotEncode('float op')
            if a2.concrete and b2.concrete:
                f = np.float32 if ct.bits == 32 else float
                return CVal(fop[1](f(a2.term), f(b2.term)), ct)
            return CVal(fop[0](RNE, a2.z3(), b2.z3()), ct)
        # integers
        if a2.concrete and b2.concrete:
            x, y = a2.term, b2.term
            if isinstance(op, ast.Add): r = x + y
            elif isinstance(op, ast.Sub): r = x - y
            elif isinstance(op, ast.Mult): r = x * y
            elif isinstance(op, ast.BitAnd): r = x & y
            elif isinstance(op, ast.BitOr): r = x | y
            elif isinstance(op, ast.BitXor): r = x ^ y
            elif isinstance(op, ast.LShift):
                if not 0 <= y < ct.bits:
                    raise CannotEncode('shift count out of range (UB)')
                r = x << y
            elif isinstance(op, ast.RShift):
                if not 0 <= y < ct.bits:
                    raise CannotEncode('shift count out of range (UB)')
                r = x >> y
            elif isinstance(op, (ast.Mod, ast.FloorDiv)):
                if y == 0:
                    self.raise_exc('ZeroDivisionError')
                r = x % y if isinstance(op, ast.Mod) else x // y   # Cython: Python semantics (cdivision=False)
            elif isinstance(op, ast.Div):
                # true division of C ints in Cython (language_level 3) yields a double
                if y == 0:
                    self.raise_exc('ZeroDivisionError')
                return CVal(x / y, C_DOUBLE)
            else:
                raise CannotEncode(f'C op {type(op).__name__}')
            return CVal(r, ct)
        x, y = a2.z3(), b2.z3()
        if isinstance(op, ast.Add): r = x + y
        elif isinstance(op, ast.Sub): r = x - y
        elif isinstance(op, ast.Mult): r = x * y
        elif isinstance(op, ast.BitAnd): r = x & y
        elif isinstance(op, ast.BitOr): r = x | y
        elif isinstance(op, ast.BitXor): r = x ^ y
        elif isinstance(op, ast.LShift):
            self.add_oblig('ub', 'shift count out of range', land(self.active(), z3.Not(z3.ULT(y, ct.bits))))
            r = x << y
        elif isinstance(op, ast.RShift):
            self.add_oblig('ub', 'shift count out of range', land(self.active(), z3.Not(z3.ULT(y, ct.bits))))
            r = (x >> y) if ct.signed else z3.LShR(x, y)
        elif isinstance(op, (ast.Mod, ast.FloorDiv)):
            self.raise_exc('ZeroDivisionError', y == 0)
            if ct.signed:
                # Python semantics: result has the sign of the divisor
                rem = z3.SRem(x, y)
                adj = z3.And(rem != 0, (rem < 0) != (y < 0))
                if isinstance(op, ast.Mod):
                    r = z3.If(adj, rem + y, rem)
                else:
                    q = x / y
                    r = z3.If(adj, q - 1, q)
            else:
                r = z3.URem(x, y) if isinstance(op, ast.Mod) else z3.UDiv(x, y)
        elif isinstance(op, ast.Div):
            self.raise_exc('ZeroDivisionError', y == 0)
            fa = z3.fpSignedToFP(RNE, x, z3.Float64()) if ct.signed else z3.fpUnsignedToFP(RNE, x, z3.Float64())
            fb = z3.fpSignedToFP(RNE, y, z3.Float64()) if ct.signed else z3.fpUnsignedToFP(RNE, y, z3.Float64())
            return CVal(z3.fpDiv(RNE, fa, fb), C_DOUBLE)
        else:
            raise CannotEncode(f'C op {type(op).__name__}')
        return norm_cval(r, ct)

    def compare(self, op, a, b):
        if isinstance(op, (ast.Is, ast.IsNot)):
            r = self.identity(a, b)
            return r if isinstance(op, ast.Is) else lnot(r)
        if isinstance(op, (ast.In, ast.NotIn)):
            r = self.models.contains(b, a)
            return r if isinstance(op, ast.In) else lnot(r)
        if isinstance(a, MaybeNone) or isinstance(b, MaybeNone):
            raise CannotEncode('comparison of Optional')
        if isinstance(a, PyChoice) or isinstance(b, PyChoice):
            if not isinstance(op, (ast.Eq, ast.NotEq)):
                raise CannotEncode('ordering of a guarded choice')
            r = lor(*[land(g1, g2, self.compare(ast.Eq(), v1, v2)) for g1, v1 in PyChoice.of(a) for g2, v2 in PyChoice.of(b)])
            return simp_bool(r if isinstance(op, ast.Eq) else lnot(r))
        if isinstance(a, CVal) or isinstance(b, CVal):
            a2, b2 = self.as_c_operand(a), self.as_c_operand(b)
            ct = self.c_common(a2.ctype, b2.ctype)
            a2, b2 = self.to_ctype(a2, ct), self.to_ctype(b2, ct)
            if a2.concrete and b2.concrete:
                return bool(_PY_CMPS[type(op)](a2.term, b2.term))
            x, y = a2.z3(), b2.z3()
            if ct.kind == 'float':
                return {ast.Eq: z3.fpEQ, ast.NotEq: z3.fpNEQ, ast.Lt: z3.fpLT, ast.LtE: z3.fpLEQ, ast.Gt: z3.fpGT, ast.GtE: z3.fpGEQ}[type(op)](x, y)
            if isinstance(op, ast.Eq): return simp_bool(x == y)
            if isinstance(op, ast.NotEq): return simp_bool(x != y)
            if ct.signed:
                return simp_bool({ast.Lt: lambda: x < y, ast.LtE: lambda: x <= y, ast.Gt: lambda: x > y, ast.GtE: lambda: x >= y}[type(op)]())
            return simp_bool({ast.Lt: lambda: z3.ULT(x, y), ast.LtE: lambda: z3.ULE(x, y), ast.Gt: lambda: z3.UGT(x, y), ast.GtE: lambda: z3.UGE(x, y)}[type(op)]())
        if isinstance(a, SInt) or isinstance(b, SInt):
            if not (isinstance(a, (SInt, int, np.integer)) and isinstance(b, (SInt, int, np.integer))):
                if isinstance(op, ast.Eq):
                    return False
                if isinstance(op, ast.NotEq):
                    return True
                raise CannotEncode(f'ordering of {a!r} and {b!r}')
            x, y = sint_z3(a), sint_z3(b)
            return simp_bool({ast.Eq: lambda: x == y, ast.NotEq: lambda: x != y, ast.Lt: lambda: x < y, ast.LtE: lambda: x <= y,
                              ast.Gt: lambda: x > y, ast.GtE: lambda: x >= y}[type(op)]())
        if (is_sym(a) and z3.is_bool(a)) or (is_sym(b) and z3.is_bool(b)):
            if isinstance(op, (ast.Eq, ast.NotEq)):
                ta = a if is_sym(a) else z3.BoolVal(bool(a))
                tb = b if is_sym(b) else z3.BoolVal(bool(b))
                r = ta == tb
                return simp_bool(r if isinstance(op, ast.Eq) else z3.Not(r))
            raise CannotEncode('ordering of symbolic bools')
        r = self.models.compare(op, a, b)
        if r is not UNSET:
            return r
        return bool(_PY_CMPS[type(op)](a, b))

    def identity(self, a, b):
        if isinstance(a, PyChoice) or isinstance(b, PyChoice):
            return simp_bool(lor(*[land(g1, g2, self.identity(v1, v2)) for g1, v1 in PyChoice.of(a) for g2, v2 in PyChoice.of(b)]))
        if isinstance(a, MaybeNone) and b is None:
            return lnot(a.present)
        if isinstance(b, MaybeNone) and a is None:
            return lnot(b.present)
        if a is None or b is None:
            return a is b
        if isinstance(a, SymSeq) and isinstance(b, SymSeq):
            return a.cells is b.cells and a.off is b.off
        return a is b

    # ---------------------------------------------------------------- subscripts

    def load_subscript(self, obj, idx, node):
        if isinstance(obj, PyChoice):
            res = UNSET
            for g, alt in reversed(obj.alts):
                g = simp_bool(g)
                if g is False:
                    continue
                r = self.load_subscript(alt, idx, node)
                res = r if res is UNSET else ite(g, r, res)
            return res
        if isinstance(obj, SymSeq):
            return self.models.seq_getitem(obj, idx, c_context=self.is_memview_expr(node.value))
        if isinstance(obj, Ref):
            if idx != 0:
                raise CannotEncode('pointer arithmetic')
            return obj.frame.vars[obj.name]
        return self.models.getitem(obj, idx)

    def store_subscript(self, obj, idx, value, node):
        if isinstance(obj, Ref):
            if not (isinstance(idx, int) and idx == 0):
                raise CannotEncode('pointer arithmetic')
            fr = obj.frame
            ct = fr.ctypes.get(obj.name)
            if isinstance(ct, CType):
                value = self.to_ctype(value, ct)
            fr.vars[obj.name] = ite(self.active(), value, fr.vars.get(obj.name, UNSET))
            return
        if isinstance(obj, SymSeq):
            return self.models.seq_setitem(obj, idx, value, c_context=self.is_memview_expr(node.value))
        return self.models.setitem(obj, idx, value)

    def is_memview_expr(self, node):
        fr = self.frame
        if fr.is_pyx and isinstance(node, ast.Name):
            ct = fr.ctypes.get(node.id)
            return isinstance(ct, tuple) and ct[0] == 'memview'
        return False


class MaybeNone:
    """Optional value: `value` where `present`, None elsewhere."""
    def __init__(self, present, value):
        self.present, self.value = present, value


def _never_falls_through(body):
    if not body:
        return False
    last = body[-1]
    if isinstance(last, (ast.Return, ast.Raise)):
        return True
    if isinstance(last, ast.If):
        return _never_falls_through(last.body) and _never_falls_through(last.orelse)
    if isinstance(last, ast.While) and isinstance(last.test, ast.Constant) and last.test.value is True:
        return not any(isinstance(n, ast.Break) for n in ast.walk(last))
    return False


def _load(target):
    t = ast.parse(ast.unparse(target), mode='eval').body
    return t


import operator as _op
_PY_BINOPS = {ast.Add: _op.add, ast.Sub: _op.sub, ast.Mult: _op.mul, ast.Div: _op.truediv, ast.FloorDiv: _op.floordiv,
              ast.Mod: _op.mod, ast.Pow: _op.pow, ast.LShift: _op.lshift, ast.RShift: _op.rshift, ast.BitAnd: _op.and_,
              ast.BitOr: _op.or_, ast.BitXor: _op.xor}
_PY_CMPS = {ast.Eq: _op.eq, ast.NotEq: _op.ne, ast.Lt: _op.lt, ast.LtE: _op.le, ast.Gt: _op.gt, ast.GtE: _op.ge}
