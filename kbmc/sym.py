"""Value domain of engine K.

Concrete values are ordinary Python objects.  Symbolic values:

* z3 BoolRef                      - a Python bool / C truth value
* SInt(term)                      - a Python int, encoded as a signed bit-vector of PYINT_BITS bits; every
                                    arithmetic operation on SInt records a no-overflow obligation, so the
                                    encoding is exact whenever the obligations are discharged
* CVal(term, ctype)               - a C-typed value (Cython `cdef` variable / expression); term is a Python int
                                    (normalised into the type's range), a numpy.float32, or a z3 BV / FP term
* SymSeq                          - bytes / bytearray / str(ASCII) / Bio.Seq / typed memoryview / 1-d numpy array
                                    as (shared cell list, offset, length)
"""
import os
import z3
import numpy as np

PYINT_BITS = int(os.environ.get('KBMC_PYINT_BITS', '32'))


class CannotEncode(Exception):
    """The source left the subset engine K can translate.  Never a pass: exit code 2."""


class Unset:
    def __repr__(self):
        return '<UNSET>'


UNSET = Unset()


# ---------------------------------------------------------------- booleans

def is_sym(x):
    return isinstance(x, z3.ExprRef)


def land(*xs):
    out = []
    for x in xs:
        if x is True:
            continue
        if x is False:
            return False
        out.append(x)
    if not out:
        return True
    if len(out) == 1:
        return out[0]
    return z3.And(*out)


def lor(*xs):
    out = []
    for x in xs:
        if x is False:
            continue
        if x is True:
            return True
        out.append(x)
    if not out:
        return False
    if len(out) == 1:
        return out[0]
    return z3.Or(*out)


def lnot(x):
    if x is True:
        return False
    if x is False:
        return True
    return z3.Not(x)


def _small(e, budget=24):
    """Bounded traversal: is the term tiny (so that simplifying it costs nothing)?"""
    stack = [e]
    n = 0
    while stack:
        x = stack.pop()
        n += 1
        if n > budget:
            return False
        stack.extend(x.children())
    return True


def simp_bool(b):
    """Reduce a z3 Bool to a Python bool when it is syntactically decided."""
    if isinstance(b, bool):
        return b
    if isinstance(b, (int, np.bool_)):
        return bool(b)
    if z3.is_true(b):
        return True
    if z3.is_false(b):
        return False
    if _small(b):
        s = z3.simplify(b)
        if z3.is_true(s):
            return True
        if z3.is_false(s):
            return False
        return s
    return b


# ---------------------------------------------------------------- C types

class CType:
    __slots__ = ('name', 'kind', 'bits', 'signed')

    def __init__(self, name, kind, bits, signed=True):
        self.name, self.kind, self.bits, self.signed = name, kind, bits, signed

    def __repr__(self):
        return f'<{self.name}>'

    def __eq__(self, o):
        return isinstance(o, CType) and (self.kind, self.bits, self.signed) == (o.kind, o.bits, o.signed)

    def __hash__(self):
        return hash((self.kind, self.bits, self.signed))

    @property
    def lo(self):
        return -(1 << (self.bits - 1)) if self.signed else 0

    @property
    def hi(self):
        return (1 << (self.bits - 1)) - 1 if self.signed else (1 << self.bits) - 1

    def wrap(self, v):
        v &= (1 << self.bits) - 1
        if self.signed and v >> (self.bits - 1):
            v -= 1 << self.bits
        return v


def _i(name, bits, signed):
    return CType(name, 'int', bits, signed)


BASE_CTYPES = {
    'char': _i('char', 8, True), 'signed char': _i('signed char', 8, True), 'unsigned char': _i('unsigned char', 8, False),
    'short': _i('short', 16, True), 'unsigned short': _i('unsigned short', 16, False),
    'int': _i('int', 32, True), 'unsigned int': _i('unsigned int', 32, False), 'unsigned': _i('unsigned int', 32, False),
    'long': _i('long', 64, True), 'unsigned long': _i('unsigned long', 64, False),
    'long long': _i('long long', 64, True), 'unsigned long long': _i('unsigned long long', 64, False),
    'int8_t': _i('int8_t', 8, True), 'uint8_t': _i('uint8_t', 8, False),
    'int16_t': _i('int16_t', 16, True), 'uint16_t': _i('uint16_t', 16, False),
    'int32_t': _i('int32_t', 32, True), 'uint32_t': _i('uint32_t', 32, False),
    'int64_t': _i('int64_t', 64, True), 'uint64_t': _i('uint64_t', 64, False),
    'intptr_t': _i('intptr_t', 64, True), 'uintptr_t': _i('uintptr_t', 64, False),
    'Py_ssize_t': _i('Py_ssize_t', 64, True), 'size_t': _i('size_t', 64, False),
    'bint': _i('bint', 32, True),
    'float': CType('float', 'float', 32), 'double': CType('double', 'float', 64),
}
C_INT = BASE_CTYPES['int']
C_LONG = BASE_CTYPES['long']
C_SSIZE = BASE_CTYPES['Py_ssize_t']
C_FLOAT = BASE_CTYPES['float']
C_DOUBLE = BASE_CTYPES['double']
C_UCHAR = BASE_CTYPES['unsigned char']


def fp_sort(ct):
    return z3.Float32() if ct.bits == 32 else z3.Float64()


RNE = z3.RNE()


class CVal:
    """C-typed value.  ub: optional known upper bound (python int) used to bound loop unrolling."""
    __slots__ = ('term', 'ctype', 'ub')

    def __init__(self, term, ctype, ub=None):
        if ctype.kind == 'int' and isinstance(term, (int, np.integer)):
            term = ctype.wrap(int(term))
        self.term, self.ctype, self.ub = term, ctype, ub

    @property
    def concrete(self):
        return not is_sym(self.term)

    def z3(self):
        t = self.term
        if is_sym(t):
            return t
        if self.ctype.kind == 'int':
            return z3.BitVecVal(t, self.ctype.bits)
        return z3.FPVal(float(t), fp_sort(self.ctype))

    def __repr__(self):
        return f'CVal({self.term}, {self.ctype.name})'


class SInt:
    """Symbolic Python int (signed BV of PYINT_BITS bits)."""
    __slots__ = ('term', 'ub')

    def __init__(self, term, ub=None):
        self.term = term
        self.ub = ub

    def __repr__(self):
        return f'SInt({self.term})'


def sint_z3(x):
    if isinstance(x, SInt):
        return x.term
    if isinstance(x, (bool, np.bool_)):
        x = int(x)
    if isinstance(x, (int, np.integer)):
        if not -(1 << (PYINT_BITS - 1)) <= x < (1 << (PYINT_BITS - 1)):
            raise CannotEncode(f'python int {x} outside the {PYINT_BITS}-bit encoding')
        return z3.BitVecVal(int(x), PYINT_BITS)
    raise CannotEncode(f'not an int: {x!r}')


def norm_sint(term):
    """SInt or concrete int after simplification."""
    if z3.is_bv_value(term):
        return term.as_signed_long()
    if _small(term, 12):
        t2 = z3.simplify(term)
        if z3.is_bv_value(t2):
            return t2.as_signed_long()
    return SInt(term)


def norm_cval(term, ctype):
    if is_sym(term):
        if ctype.kind == 'int' and z3.is_bv_value(term):
            return CVal(term.as_long(), ctype)
        if ctype.kind == 'int' and _small(term, 12):
            t2 = z3.simplify(term)
            if z3.is_bv_value(t2):
                return CVal(t2.as_long(), ctype)
        return CVal(term, ctype)
    return CVal(term, ctype)


def is_numeric(x):
    return isinstance(x, (int, bool, np.integer, np.bool_, SInt, CVal, float, np.floating)) or (is_sym(x) and z3.is_bool(x))


def _widen_fp(t, ct):
    """float32 term -> float64 term (exact)."""
    return t if ct.bits == 64 else z3.fpFPToFP(RNE, t, z3.Float64())


def to_z3_scalar(x):
    """z3 term for merging purposes, with a tag describing how to rebuild the value."""
    if isinstance(x, CVal):
        return x.z3(), ('c', x.ctype)
    if isinstance(x, SInt):
        return x.term, ('s',)
    if isinstance(x, (bool, np.bool_)):
        return z3.BoolVal(bool(x)), ('b',)
    if isinstance(x, (int, np.integer)):
        return sint_z3(int(x)), ('s',)
    if is_sym(x) and z3.is_bool(x):
        return x, ('b',)
    if isinstance(x, (float, np.floating)):
        ct = C_FLOAT if isinstance(x, np.float32) else C_DOUBLE
        return z3.FPVal(float(x), fp_sort(ct)), ('c', ct)
    raise CannotEncode(f'cannot merge value {x!r}')


def from_z3_scalar(t, tag):
    if tag[0] == 'c':
        return norm_cval(t, tag[1])
    if tag[0] == 's':
        return norm_sint(t)
    return simp_bool(t)


def ite(c, a, b):
    """Merge two values under condition c (a if c else b)."""
    if c is True:
        return a
    if c is False:
        return b
    if a is b:
        return a
    if b is UNSET:
        return a
    if a is UNSET:
        return b
    if isinstance(a, SymSeq) and isinstance(b, SymSeq):
        if a.pytype == 'ndarray' and b.pytype == 'ndarray' and (a.writable or b.writable) and a.cells is not b.cells:
            # distinct mutable buffers: keep their identities apart so that later writes go to the right one
            return PyChoice.merge(c, a, b)
        if not a.writable and not b.writable and a.plain_cells() is not None and b.plain_cells() is not None \
                and len(a.plain_cells()) != len(b.plain_cells()):
            return PyChoice.merge(c, a, b)        # immutable sequences of different length
        return SymSeq.merge(c, a, b)
    if a is None and b is None:
        return None
    if is_numeric(a) and is_numeric(b):
        ta, ka = to_z3_scalar(a)
        tb, kb = to_z3_scalar(b)
        if ka == ('b',) and kb == ('s',) or ka == ('s',) and kb == ('b',):
            # bool/int mix (Python treats bool as int)
            if ka == ('b',):
                ta, ka = z3.If(ta, sint_z3(1), sint_z3(0)), ('s',)
            else:
                tb, kb = z3.If(tb, sint_z3(1), sint_z3(0)), ('s',)
        if ka != kb and ka[0] == 'c' and kb[0] == 'c' and ka[1].kind == 'float' and kb[1].kind == 'float':
            # python float (binary64) vs C float: compare / merge as binary64 (widening is exact)
            ta, tb = _widen_fp(ta, ka[1]), _widen_fp(tb, kb[1])
            ka = kb = ('c', C_DOUBLE)
        if ka != kb:
            if ka[0] == 'c' and kb[0] == 's' and not is_sym(b):
                tb, kb = CVal(int(b), ka[1]).z3(), ka
            elif kb[0] == 'c' and ka[0] == 's' and not is_sym(a):
                ta, ka = CVal(int(a), kb[1]).z3(), kb
            else:
                # integer values of different C / numpy types (or C value vs python int): merge as python ints
                def widen(t, k, orig):
                    if k[0] == 's':
                        return t
                    ct = k[1]
                    if ct.kind != 'int' or ct.bits + (0 if ct.signed else 1) > PYINT_BITS:
                        raise CannotEncode(f'cannot merge {a!r} with {b!r}')
                    return z3.SignExt(PYINT_BITS - ct.bits, t) if ct.signed else z3.ZeroExt(PYINT_BITS - ct.bits, t)
                if ka[0] in 'cs' and kb[0] in 'cs':
                    ta, tb = widen(ta, ka, a), widen(tb, kb, b)
                    ka = kb = ('s',)
                else:
                    raise CannotEncode(f'cannot merge {a!r} with {b!r}')
        if z3.eq(ta, tb):
            return a
        return from_z3_scalar(z3.If(c, ta, tb), ka)
    try:
        if type(a) is type(b) and a == b:
            return a
    except Exception:
        pass
    if hasattr(a, 'sym_merge') and type(a) is type(b):
        return a.sym_merge(c, b)
    if _choiceable(a) and _choiceable(b):
        return PyChoice.merge(c, a, b)
    raise CannotEncode(f'cannot merge {type(a).__name__} {a!r} with {type(b).__name__} {b!r} under a symbolic guard')


class PyChoice:
    """Guarded choice between concrete python objects (strings, tags, None ...): [(condition, value)]."""
    def __init__(self, alts):
        self.alts = alts

    @staticmethod
    def of(x):
        return x.alts if isinstance(x, PyChoice) else [(True, x)]

    @staticmethod
    def merge(c, a, b):
        alts = [(land(c, g), v) for g, v in PyChoice.of(a)] + [(land(lnot(c), g), v) for g, v in PyChoice.of(b)]
        out = []
        for g, v in alts:
            for i, (g2, v2) in enumerate(out):
                if v2 is v or (type(v2) is type(v) and isinstance(v, (str, int, bytes, tuple, type(None), np.dtype)) and v2 == v):
                    out[i] = (lor(g2, g), v2)
                    break
            else:
                out.append((g, v))
        return PyChoice(out)

    def __repr__(self):
        return f'<PyChoice {[v for _, v in self.alts]}>'


def _choiceable(x):
    if isinstance(x, PyChoice) or x is None or isinstance(x, (str, bytes, tuple, np.dtype)):
        return True
    if isinstance(x, SymSeq) and ((x.writable and x.pytype == 'ndarray') or not x.writable):
        return True
    return getattr(x, 'choiceable', False)


# ---------------------------------------------------------------- sequences

class SymSeq:
    """A view (offset, length) on a shared list of cells.

    pytype: 'bytes' | 'bytearray' | 'str' | 'Seq' | 'memview' | 'ndarray'
    cells hold Python ints or z3 BV terms of elem.bits bits.
    offset / length: Python int or SInt.
    """

    def __init__(self, cells, elem, pytype, off=0, length=None, writable=None, name=None, dtype=None):
        self.cells = cells
        self.elem = elem
        self.pytype = pytype
        self.off = off
        self.length = len(cells) if length is None else length
        self.writable = (pytype in ('bytearray', 'memview', 'ndarray')) if writable is None else writable
        self.name = name
        self.dtype = dtype      # numpy dtype string for ndarrays

    def __repr__(self):
        return f'<SymSeq {self.pytype} cap={len(self.cells)} off={self.off} len={self.length}>'

    def retag(self, pytype, writable=None):
        return SymSeq(self.cells, self.elem, pytype, self.off, self.length, writable, self.name, self.dtype)

    def concrete_len(self):
        return self.length if isinstance(self.length, int) else None

    def cell_z3(self, j):
        c = self.cells[j]
        return c if is_sym(c) else z3.BitVecVal(c, self.elem.bits)

    def is_plain(self):
        return self.off == 0 and isinstance(self.length, int) and isinstance(self.off, int)

    def plain_cells(self):
        """Cells of the view when offset and length are concrete."""
        if isinstance(self.off, int) and isinstance(self.length, int):
            return self.cells[self.off:self.off + self.length]
        return None

    def copy(self, pytype=None):
        pc = self.plain_cells()
        if pc is None:
            raise CannotEncode('copy of a symbolic-extent view')
        return SymSeq(list(pc), self.elem, pytype or self.pytype, name=self.name, dtype=self.dtype)

    @staticmethod
    def merge(c, a, b):
        if a.elem != b.elem:
            raise CannotEncode('merge of sequences of different element type')
        pa, pb = a.plain_cells(), b.plain_cells()
        if pa is None or pb is None or len(pa) != len(pb):
            raise CannotEncode('merge of sequences of different extent')
        cells = []
        for x, y in zip(pa, pb):
            if x is y or (not is_sym(x) and not is_sym(y) and x == y):
                cells.append(x)
            else:
                tx = x if is_sym(x) else z3.BitVecVal(x, a.elem.bits)
                ty = y if is_sym(y) else z3.BitVecVal(y, a.elem.bits)
                cells.append(z3.If(c, tx, ty))
        return SymSeq(cells, a.elem, a.pytype, name=a.name, dtype=a.dtype)


def bv_value(t):
    """Python int for a concrete term (int or BV numeral), else None."""
    if isinstance(t, (int, np.integer)):
        return int(t)
    if is_sym(t):
        if z3.is_bv_value(t):
            return t.as_long()
    return None
