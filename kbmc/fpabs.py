"""Uninterpreted-function abstraction of floating-point operators: if the negated property is unsat with every FP
operation replaced by an uninterpreted function of the same signature, it is unsat for the IEEE interpretation too
(sound, incomplete).  Used to discharge congruence-style obligations without bit-blasting dividers."""
import z3

_cache = {}


def _uf(name, doms, rng):
    key = (name, tuple(str(d) for d in doms), str(rng))
    if key not in _cache:
        _cache[key] = z3.Function(f'absfp_{name}_{len(_cache)}', *doms, rng)
    return _cache[key]


def abstract_fp(e, memo=None):
    memo = {} if memo is None else memo
    k = e.get_id()
    if k in memo:
        return memo[k]
    if not z3.is_app(e) or e.num_args() == 0:
        memo[k] = e
        return e
    args = [abstract_fp(a, memo) for a in e.children()]
    d = e.decl()
    name = d.name()
    is_fp_op = name.startswith('fp.') or name in ('to_fp', 'to_fp_unsigned', 'fp')
    if is_fp_op:
        # drop rounding-mode arguments (a single mode is used throughout) - keep them if symbolic
        keep = [a for a in args if not (isinstance(a, z3.FPRMRef) and z3.is_fprm_value(a))]
        params = [d.params()[i] for i in range(len(d.params()))] if hasattr(d, 'params') else []
        f = _uf(name + '_' + '_'.join(str(p) for p in params), [a.sort() for a in keep], e.sort())
        r = f(*keep)
    else:
        r = d(*args)
    memo[k] = r
    return r
