"""Solving layer of engine K: z3 in-process (primary), SMT-LIB2 dump re-decided by a second solver."""
import time
import subprocess
import tempfile
import os
import z3

from .sym import land, lnot, is_sym


def _bool(x):
    return x if is_sym(x) else z3.BoolVal(bool(x))


class Query:
    """assumptions /\\ goal satisfiable?  (goal = violation condition or reachability witness)"""
    def __init__(self, name, assumptions, goal, kind='violation'):
        self.name, self.assumptions, self.goal, self.kind = name, list(assumptions), goal, kind

    def solver(self, timeout_s=None):
        s = z3.Solver()
        if timeout_s:
            s.set('timeout', int(timeout_s * 1000))
        for a in self.assumptions:
            s.add(_bool(a))
        s.add(_bool(self.goal))
        return s

    def smt2(self):
        return self.solver().to_smt2()


def solve(q, timeout_s=120, engine='z3'):
    t0 = time.time()
    if q.goal is False or any(a is False for a in q.assumptions):
        return {'name': q.name, 'kind': q.kind, 'result': 'unsat', 'time_s': 0.0, 'model': None, 'trivial': True}
    if engine != 'z3':
        r, dt = second_opinion(q, timeout_s, engine)
        out = {'name': q.name, 'kind': q.kind, 'result': r if r in ('sat', 'unsat') else 'unknown', 'time_s': round(dt, 3), 'model': None}
        if r not in ('sat', 'unsat'):
            out['reason'] = r
        if r == 'sat':
            # need a model: ask z3 (same query)
            rz = solve(q, timeout_s, 'z3')
            if rz['result'] == 'sat':
                out['model'] = rz['model']
            elif rz['result'] == 'unsat':
                out['result'], out['reason'] = 'unknown', f'{engine} says sat, z3 says unsat'
            else:
                out['result'], out['reason'] = 'unknown', f'{engine} says sat, z3 gives no model'
        return out
    s = q.solver(timeout_s)
    r = s.check()
    dt = time.time() - t0
    out = {'name': q.name, 'kind': q.kind, 'result': str(r), 'time_s': round(dt, 3), 'model': None}
    if r == z3.sat:
        out['model'] = s.model()
    elif r == z3.unknown:
        out['reason'] = s.reason_unknown()
    return out


def second_opinion(q, timeout_s=120, which='cvc5'):
    which = {'z3old': 'z3bin'}.get(which, which)
    """Re-decide the query with another solver from its SMT-LIB2 text.  Returns 'sat'/'unsat'/'unknown'/'error:...'."""
    if q.goal is False:
        return 'unsat', 0.0
    text = q.smt2()
    t0 = time.time()
    if which == 'cvc5':
        try:
            import cvc5
            from cvc5 import Kind
            slv = cvc5.Solver()
            slv.setOption('tlimit-per', str(int(timeout_s * 1000)))
            slv.setLogic('ALL')
            parser = cvc5.InputParser(slv)
            parser.setStringInput(cvc5.InputLanguage.SMT_LIB_2_6, text, 'q')
            sm = parser.getSymbolManager()
            res = None
            while True:
                cmd = parser.nextCommand()
                if cmd.isNull():
                    break
                o = cmd.invoke(slv, sm)
                o = str(o).strip()
                if o in ('sat', 'unsat', 'unknown'):
                    res = o
                elif o.startswith('(error'):
                    return 'error:' + o[:100], time.time() - t0
            return (res or 'unknown'), time.time() - t0
        except Exception as e:   # noqa
            return f'error:{type(e).__name__}:{str(e)[:100]}', time.time() - t0
    # old z3 binary
    with tempfile.NamedTemporaryFile('w', suffix='.smt2', delete=False, dir=os.environ.get('VERIF_SCRATCH', '/tmp')) as f:
        f.write(text)
        path = f.name
    try:
        p = subprocess.run(['/usr/bin/z3', f'-T:{int(timeout_s)}', path], capture_output=True, text=True, timeout=timeout_s + 10)
        out = p.stdout.strip().splitlines()
        if any(l.startswith('(error') for l in out):
            return 'error:' + out[0][:100], time.time() - t0
        for l in out:
            if l in ('sat', 'unsat', 'unknown', 'timeout'):
                return ('unknown' if l == 'timeout' else l), time.time() - t0
        return 'unknown', time.time() - t0
    except subprocess.TimeoutExpired:
        return 'unknown', time.time() - t0
    finally:
        os.unlink(path)
