"""Harness helpers for engine K obligations."""
import time
import z3

from .interp import Interp, Frame, Registry, _Abort, EXC_CODES, EXC_NAMES, MaybeNone
from .sym import *
from . import smt

HOLDS, VIOLATED, INCONCLUSIVE = 'holds', 'violated', 'inconclusive'


class Outcome:
    def __init__(self, ret, raised, code):
        self.ret, self.raised, self.code = ret, raised, code

    def raises(self, name):
        """Condition: the call raised exception `name`."""
        c = EXC_CODES[name]
        if not is_sym(self.code):
            return land(self.raised, self.code == c)
        return land(self.raised, self.code == z3.BitVecVal(c, 8))


class KSession:
    def __init__(self, max_unroll=16, fused=None, loop_bounds=None, repo=None):
        self.ip = Interp(Registry(repo), max_unroll=max_unroll)
        if fused:
            self.ip.reg.fused_binding.update(fused)
        if loop_bounds:
            self.ip.loop_bounds.update(loop_bounds)

    def lookup(self, modname, name):
        ip = self.ip
        m = ip.reg.module(modname)
        if m is None:
            raise CannotEncode(f'module {modname} not found')
        obj = m
        for part in name.split('.'):
            obj = ip.getattr(obj, part) if not isinstance(obj, type(m)) else ip.lookup_module_name(obj, part)
        return obj

    def call(self, fn, *args, **kwargs):
        """Top-level call with its own exception state.  fn: object from lookup()."""
        ip = self.ip
        saved = (ip.raised, ip.exc_code, list(ip.guards))
        ip.raised, ip.exc_code = False, 0
        mod = getattr(fn, 'module', None) or getattr(getattr(fn, 'func', None), 'module', None)
        ip.frames.append(Frame(None, mod))
        try:
            try:
                ret = ip.call(fn, list(args), dict(kwargs))
            except _Abort:
                ret = UNSET
            out = Outcome(ret, ip.raised, ip.exc_code)
        finally:
            ip.frames.pop()
            ip.raised, ip.exc_code, ip.guards = saved[0], saved[1], saved[2]
        return out

    def side(self, kinds=None):
        return [(k, d, v) for (k, d, v) in self.ip.obligs if kinds is None or k in kinds]

    @property
    def encoded(self):
        return dict(self.ip.encoded)


def sym_bytes(name, n, pytype='bytes'):
    cells = [z3.BitVec(f'{name}_{i}', 8) for i in range(n)]
    return SymSeq(cells, C_UCHAR, pytype, name=name), cells


def conc_bytes(b, pytype='bytes'):
    return SymSeq(list(b), C_UCHAR, pytype)


def model_bytes(model, cells):
    out = bytearray()
    for c in cells:
        if is_sym(c):
            v = model.eval(c, model_completion=True)
            out.append(v.as_long())
        else:
            out.append(c)
    return bytes(out)


def model_int(model, t, signed=False):
    if not is_sym(t):
        return int(t)
    v = model.eval(t, model_completion=True)
    if z3.is_bv_value(v):
        return v.as_signed_long() if signed else v.as_long()
    if z3.is_true(v):
        return 1
    if z3.is_false(v):
        return 0
    return int(str(v))


def decide(name, assumptions, violation, session=None, extract=None, timeout_s=120, reach_goals=None,
           second=None, bounds=None, sample_extract=None, unwind_is_violation=False, abstract_fp=False, engines=('z3',), optional_goals=None):
    """Standard obligation: reachability twin(s) must be sat, violation and side obligations must be unsat.

    extract(model) -> json-able counterexample.  Returns a result dict.
    """
    res = {'name': name, 'queries': [], 'bounds': bounds or {}}
    if session is not None:
        res['encoded'] = session.encoded
    # vacuity guard
    goals = reach_goals if reach_goals is not None else [('reach', True)]
    for gname, goal in goals:
        r = smt.solve(smt.Query(f'{name}/{gname}', assumptions, goal, 'reach'), timeout_s)
        res['queries'].append({'q': gname, 'result': r['result'], 'time_s': r['time_s']})
        if r['result'] != 'sat':
            res['status'] = INCONCLUSIVE
            res['error'] = f'reachability witness {gname!r} is {r["result"]} (vacuous or undecided harness)'
            return res
        if (sample_extract or extract) and 'sample' not in res:
            try:
                res['sample'] = (sample_extract or extract)(r['model'])
            except Exception as e:   # noqa
                res['sample'] = f'<sample extraction failed: {e}>'
    res['reach'] = 'sat'
    for gname, goal in (optional_goals or []):
        r = smt.solve(smt.Query(f'{name}/{gname}', assumptions, goal, 'reach'), min(timeout_s, 30))
        res['queries'].append({'q': gname + ' (optional witness)', 'result': r['result'], 'time_s': r['time_s']})
    # side obligations: unwinding assertions, undefined behaviour, encoding overflow
    if session is not None:
        side = session.side()
        if side:
            sv = lor(*[v for _, _, v in side])
            q = smt.Query(f'{name}/side', assumptions, sv, 'side')
            r = smt.solve(q, timeout_s)
            res['queries'].append({'q': f'side[{len(side)}]', 'result': r['result'], 'time_s': r['time_s']})
            if r['result'] == 'sat':
                m = r['model']
                hit = [(k, d) for k, d, v in side if z3.is_true(m.eval(v if is_sym(v) else z3.BoolVal(v), model_completion=True))]
                kinds = {k for k, _ in hit}
                if kinds and kinds <= {'unwind'} and unwind_is_violation:
                    res['status'] = VIOLATED
                    res['cex'] = extract(m) if extract else {}
                    res['cex_kind'] = 'unwind:' + ';'.join(sorted(d for _, d in hit))[:300]
                    return res
                if kinds and kinds <= {'unwind', 'pyint-overflow'}:
                    res['status'] = INCONCLUSIVE
                    res['error'] = f'bound too small / encoding overflow: {hit[:3]}'
                    return res
                res['status'] = VIOLATED
                res['cex'] = extract(m) if extract else {}
                res['cex_kind'] = 'side:' + ';'.join(sorted(d for _, d in hit))[:300]
                return res
            if r['result'] != 'unsat':
                res['status'] = INCONCLUSIVE
                res['error'] = f'side obligations: {r["result"]} {r.get("reason", "")}'
                return res
    q = smt.Query(f'{name}/violation', assumptions, violation, 'violation')
    r = None
    if abstract_fp:
        from .fpabs import abstract_fp as _abs
        memo = {}
        qa = smt.Query(f'{name}/violation-abstract', [_abs(a, memo) if is_sym(a) else a for a in assumptions],
                       _abs(violation, memo) if is_sym(violation) else violation, 'violation')
        ra = smt.solve(qa, min(timeout_s, 60))
        res['queries'].append({'q': 'violation (FP operators as uninterpreted functions)', 'result': ra['result'], 'time_s': ra['time_s']})
        if ra['result'] == 'unsat':
            r = ra
            q = qa
    if r is None:
        for eng in engines:
            r = smt.solve(q, timeout_s, engine=eng)
            res['queries'].append({'q': f'violation@{eng}' if eng != 'z3' else 'violation', 'result': r['result'], 'time_s': r['time_s']})
            if r['result'] in ('sat', 'unsat'):
                break
    if r['result'] == 'unsat':
        res['status'] = HOLDS
        if second:
            r2, t2 = smt.second_opinion(q, timeout_s, second)
            res['second'] = {'solver': second, 'result': r2, 'time_s': round(t2, 3)}
            res['queries'].append({'q': f'violation@{second}', 'result': r2, 'time_s': round(t2, 3)})
            if r2 == 'unknown':
                # the cross-check did not finish within its limit: not a disagreement; the obligation stays discharged
                # by the primary solver and is reported as not cross-checked
                res['second']['note'] = 'second solver undecided within the time limit (not a disagreement)'
            elif r2 != 'unsat':
                res['status'] = INCONCLUSIVE
                res['error'] = f'second solver {second} answered {r2} where z3 answered unsat'
    elif r['result'] == 'sat':
        res['status'] = VIOLATED
        res['cex'] = extract(r['model']) if extract else {}
        res['cex_kind'] = 'assertion'
    else:
        res['status'] = INCONCLUSIVE
        res['error'] = f'solver: {r["result"]} {r.get("reason", "")}'
    return res
