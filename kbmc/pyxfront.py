"""Cython front-end of engine K: rewrites the Cython-only syntax used in this repository into Python source
carrying the C type information as string annotations, then parses it with `ast`.

Recognised (anything else that starts with a Cython keyword is a hard error - CannotEncode):

  cdef T f(args) nogil:          ->  def f(args...) -> 'T':        (marker: __cdef__)
  def f(const CHAR[:] a, int k): ->  def f(a: 'const CHAR[:]', k: 'int'):
  cdef:  <indented declarations> ->  name: 'T' [= expr]  (one statement per declarator)
  cdef T a = e, b                ->  same
  <T>(expr) / <T>name            ->  __cast__('T', expr)
  &name                          ->  __addr__(name)
  ctypedef T name                ->  typedef table
  ctypedef fused name: members   ->  fused table
  cimport lines                  ->  dropped (types resolved through the typedef tables of the .pxd files)
  decorators @cython.x(...)      ->  kept as ordinary decorators
"""
import ast
import re
from .sym import CannotEncode, BASE_CTYPES, CType

_ID = r'[A-Za-z_][A-Za-z_0-9]*'
_TYPE_WORDS = r'(?:const\s+)?(?:unsigned\s+|signed\s+)?' + _ID + r'(?:\s+long|\s+int)?'
_TYPE = r'(?P<type>' + _TYPE_WORDS + r'(?:\s*\[\s*:\s*\]|\s*\*)?)'


class TypeTable:
    def __init__(self):
        self.typedefs = {}     # name -> base type name
        self.fused = {}        # name -> [member type names]

    def resolve(self, name):
        """Resolve a scalar type name to a CType (fused names must have been substituted)."""
        name = re.sub(r'\s+', ' ', name.strip())
        if name.startswith('const '):
            name = name[6:]
        seen = set()
        while name in self.typedefs:
            if name in seen:
                raise CannotEncode(f'cyclic typedef {name}')
            seen.add(name)
            name = self.typedefs[name]
        if name in BASE_CTYPES:
            return BASE_CTYPES[name]
        raise CannotEncode(f'unknown C type {name!r}')


def parse_pxd(text, table):
    lines = text.split('\n')
    i = 0
    while i < len(lines):
        raw = lines[i]
        line = raw.split('#')[0].rstrip()
        i += 1
        if not line.strip():
            continue
        m = re.match(r'^ctypedef\s+fused\s+(' + _ID + r')\s*:\s*$', line)
        if m:
            members = []
            while i < len(lines) and (lines[i].startswith(('\t', ' ')) or not lines[i].strip()):
                s = lines[i].split('#')[0].strip()
                if s:
                    members.append(s)
                i += 1
            table.fused[m.group(1)] = members
            continue
        m = re.match(r'^ctypedef\s+(.+?)\s+(' + _ID + r')\s*$', line)
        if m:
            table.typedefs[m.group(2)] = re.sub(r'\s+', ' ', m.group(1))
            continue
        if re.match(r'^(from\s+\S+\s+cimport|cimport)\b', line):
            continue
        if re.match(r'^cdef\s+.*\)\s*(nogil)?\s*$', line):
            continue   # forward declaration of a cdef function
        if line.startswith('"""') or line.startswith("'''"):
            # docstring
            q = line[:3]
            if line.count(q) >= 2:
                continue
            while i < len(lines) and q not in lines[i]:
                i += 1
            i += 1
            continue
        raise CannotEncode(f'pxd line not understood: {raw!r}')


def _split_commas(s):
    out, depth, cur = [], 0, ''
    for ch in s:
        if ch in '([{':
            depth += 1
        elif ch in ')]}':
            depth -= 1
        if ch == ',' and depth == 0:
            out.append(cur)
            cur = ''
        else:
            cur += ch
    if cur.strip():
        out.append(cur)
    return out


def _rewrite_params(params):
    out = []
    for p in _split_commas(params):
        p = p.strip()
        if not p:
            continue
        default = None
        if '=' in p:
            p, default = p.split('=', 1)
            p, default = p.strip(), default.strip()
        m = re.match(r'^' + _TYPE + r'\s*(?P<name>' + _ID + r')$', p)
        if m and m.group('type').strip() != m.group('name') and not re.match(r'^' + _ID + r'$', p):
            t = re.sub(r'\s+', ' ', m.group('type').strip())
            s = f"{m.group('name')}: {t!r}"
        elif re.match(r'^\*{0,2}' + _ID + r'$', p) or re.match(r'^' + _ID + r'\s*:\s*.+$', p):
            s = p
        else:
            raise CannotEncode(f'parameter not understood: {p!r}')
        if default is not None:
            s += ' = ' + default
        out.append(s)
    return ', '.join(out)


def _rewrite_decl(body, indent):
    """'uint64_t idx = 0' / 'int i, k = kmer.shape[0]' -> list of annotated assignments."""
    m = re.match(r'^' + _TYPE + r'\s+(?P<rest>.+)$', body)
    if not m:
        raise CannotEncode(f'cdef declaration not understood: {body!r}')
    t = re.sub(r'\s+', ' ', m.group('type').strip())
    out = []
    for d in _split_commas(m.group('rest')):
        d = d.strip()
        mm = re.match(r'^(' + _ID + r')\s*(?:=\s*(.+))?$', d)
        if not mm:
            raise CannotEncode(f'declarator not understood: {d!r}')
        if mm.group(2) is not None:
            out.append(f'{indent}{mm.group(1)}: {t!r} = {mm.group(2)}')
        else:
            out.append(f'{indent}{mm.group(1)}: {t!r}')
    return out


def _rewrite_casts(line):
    """<T>(expr) -> __cast__('T', (expr)) ; <T>name -> __cast__('T', name); &name -> __addr__(name)."""
    # casts
    while True:
        m = re.search(r'<\s*(' + _TYPE_WORDS + r')\s*>\s*(?=[A-Za-z_(])', line)
        if not m:
            break
        # make sure this is not a comparison: preceded by operator/paren/start/'=' or 'return'
        pre = line[:m.start()].rstrip()
        if pre and not re.search(r'(?:[=(,+\-*/%&|^~<>\[]|\breturn|\bnot|\band|\bor|\bin|\bis|\bif|\belse)$', pre):
            raise CannotEncode(f'ambiguous "<...>" in {line!r}')
        rest = line[m.end():]
        if rest.startswith('('):
            depth = 0
            for j, ch in enumerate(rest):
                if ch == '(':
                    depth += 1
                elif ch == ')':
                    depth -= 1
                    if depth == 0:
                        break
            else:
                raise CannotEncode(f'unbalanced cast in {line!r}')
            operand, tail = rest[:j + 1], rest[j + 1:]
        else:
            mm = re.match(_ID + r'(?:\.' + _ID + r')*', rest)
            operand, tail = mm.group(0), rest[mm.end():]
        line = f"{line[:m.start()]}__cast__({m.group(1).strip()!r}, {operand}){tail}"
    # address-of (only as a call argument / after comma or paren)
    line = re.sub(r'(?<=[(,])\s*&\s*(' + _ID + r')\b', r' __addr__(\1)', line)
    return line


def _strip_strings(line):
    """Blank out string literals and comments so that regexes do not look inside them."""
    out, i, n = '', 0, len(line)
    while i < n:
        ch = line[i]
        if ch == '#':
            break
        if ch in '"\'':
            q = ch
            j = i + 1
            while j < n and line[j] != q:
                j += 2 if line[j] == '\\' else 1
            out += q + ' ' * (j - i - 1) + q
            i = j + 1
        else:
            out += ch
            i += 1
    return out


def pyx_to_python(text):
    """Returns (python_source, info) where info has cdef function names."""
    lines = text.split('\n')
    out = []
    cdef_funcs = set()
    i = 0
    in_doc = None
    while i < len(lines):
        raw = lines[i]
        i += 1
        stripped = raw.strip()
        indent = raw[:len(raw) - len(raw.lstrip())]
        # docstrings pass through untouched
        if in_doc:
            out.append(raw)
            if in_doc in raw:
                in_doc = None
            continue
        for q in ('"""', "'''"):
            if stripped.startswith(q) or stripped.startswith('r' + q):
                body = stripped[stripped.index(q) + 3:]
                if q not in body:
                    in_doc = q
                break
        if in_doc or stripped.startswith(('"""', "'''", 'r"""')):
            out.append(raw)
            continue
        if not stripped or stripped.startswith('#'):
            out.append(raw)
            continue
        code = _strip_strings(raw).rstrip()
        cs = code.strip()

        if re.match(r'^(from\s+\S+\s+cimport|cimport)\b', cs):
            out.append(indent + 'pass')
            continue
        # cdef block
        if re.match(r'^cdef\s*:\s*$', cs):
            # following more-indented lines are declarations
            n_decl = 0
            while i < len(lines):
                nxt = lines[i]
                nind = nxt[:len(nxt) - len(nxt.lstrip())]
                if nxt.strip() and len(nind) <= len(indent):
                    break
                i += 1
                ns = nxt.split('#')[0].strip() if "'" not in nxt and '"' not in nxt else _strip_and_keep(nxt)
                if not ns:
                    continue
                out.extend(_rewrite_decl(_rewrite_casts(ns), indent))
                n_decl += 1
            if not n_decl:
                out.append(indent + 'pass')
            continue
        # cdef function
        m = re.match(r'^cdef\s+(?:inline\s+)?(?P<ret>' + _TYPE_WORDS + r'(?:\s*\*)?)\s+(?P<name>' + _ID + r')\s*\((?P<params>.*)\)\s*(?P<tail>(?:nogil|except\s*[^:]*|noexcept)?(?:\s+nogil)?)\s*:\s*$', cs)
        if m:
            params = _rewrite_params(_orig_segment(raw, m, 'params'))
            ret = re.sub(r'\s+', ' ', m.group('ret').strip())
            cdef_funcs.add(m.group('name'))
            out.append(f"{indent}def {m.group('name')}({params}) -> {ret!r}:")
            continue
        # single-line cdef declaration
        m = re.match(r'^cdef\s+(?P<body>.+)$', cs)
        if m:
            body = _orig_tail(raw, 'cdef')
            out.extend(_rewrite_decl(_rewrite_casts(body), indent))
            continue
        if re.match(r'^(ctypedef|cpdef|cimport|DEF|IF|ELIF|ELSE)\b', cs):
            raise CannotEncode(f'Cython construct not supported: {raw!r}')
        # def with typed parameters
        m = re.match(r'^def\s+(?P<name>' + _ID + r')\s*\((?P<params>.*)\)\s*:\s*$', cs)
        if m:
            params = _rewrite_params(_orig_segment(raw, m, 'params'))
            out.append(f"{indent}def {m.group('name')}({params}):")
            continue
        # ordinary statement: casts and address-of
        if '<' in cs and '>' in cs or '&' in cs:
            new = _rewrite_casts_keep_strings(raw)
            out.append(new)
        else:
            out.append(raw)
    src = '\n'.join(out)
    try:
        import warnings
        with warnings.catch_warnings():
            warnings.simplefilter('ignore')
            tree = ast.parse(src)
    except SyntaxError as e:
        raise CannotEncode(f'rewritten Cython does not parse: {e}; line: {src.splitlines()[e.lineno - 1] if e.lineno else ""!r}')
    return src, tree, cdef_funcs


def _strip_and_keep(line):
    # drop a trailing comment while keeping string literals intact
    code = _strip_strings(line)
    return line[:len(code)].strip()


def _orig_segment(raw, m, group):
    """The original text (strings intact) corresponding to a group matched on the blanked line."""
    code = _strip_strings(raw).rstrip()
    lead = len(code) - len(code.lstrip())
    s, e = m.span(group)
    return raw[lead + s: lead + e]


def _orig_tail(raw, kw):
    code = _strip_strings(raw).rstrip()
    body = raw[:len(code)].strip()
    return body[len(kw):].strip()


def _rewrite_casts_keep_strings(raw):
    code = _strip_strings(raw)
    comment_free = raw[:len(code)]
    # protect string literals
    lits = []

    def repl(mo):
        lits.append(mo.group(0))
        return f'__LIT{len(lits) - 1}__'
    protected = re.sub(r'''(?:[rbuRBU]{0,2})("(?:\\.|[^"\\])*"|'(?:\\.|[^'\\])*')''', repl, comment_free)
    new = _rewrite_casts(protected)
    for k, lit in enumerate(lits):
        new = new.replace(f'__LIT{k}__', lit)
    return new
